"""Two-run (relational) bounded symbolic execution of one real kernel: f(in) and f(T(in)) are executed on the
same symbols, the second run under the path condition of the first, and their results are related as the property
says (swap symmetry, identity, time-reversal mirror, shift / scale, monotonicity in MRTS / max_tau)."""
import time
import z3
from .sym import *  # noqa
from .engine import Engine, PC, run_function, Obl, Unsupported
from . import source, solve
from .groups.base import Group, solve_inline, merge_by_hyp


def arg_values(ctx, st):
    """current argument values of run 1 as python lists / scalars"""
    out = {}
    for p in ctx.argorder:
        v = st.vars[p]
        if isinstance(v, ArrV):
            out[p] = [st.elem(v, k) for k in range(v.n)]
        else:
            out[p] = v
    return out


def state_from(argvals):
    st = State()
    for p, v in argvals.items():
        if isinstance(v, list):
            st.vars[p] = st.alloc(list(v), len(v), p, local=False)
        else:
            st.vars[p] = v
    return st


def ret_lists(st, ret):
    """return value -> nested python lists of scalar values"""
    if isinstance(ret, tuple):
        return [ret_lists(st, r) for r in ret]
    if isinstance(ret, (ArrV, LazyArr)):
        return [st.elem(ret, k) for k in range(ret.n)]
    return ret


class Relation(object):
    """name; transform(ctx, args1) -> (args2, extra hypotheses) ; relate(ctx, out1, out2, args1, args2) -> [(name, formula)]"""

    def __init__(self, name, transform, relate, extra_pre=None):
        self.name, self.transform, self.relate, self.extra_pre = name, transform, relate, extra_pre


def relational_obligations(contract, size, rel, contract2=None, values=None, subst=None, want_runs=False):
    reset_fresh()
    mod = source.module(contract.rel)
    fdef = mod.func(contract.func, contract.cls)
    c2 = contract2 or contract
    mod2 = source.module(c2.rel)
    fdef2 = mod2.func(c2.func, c2.cls)
    st, pre, ctx = contract.setup('B', size, values=values) if values is not None else contract.setup('B', size)
    pre = [p for p in pre if p is not True]
    runs = []
    if rel.extra_pre is not None:
        pre += [p for p in rel.extra_pre(ctx) if p is not True]
    if any(p is False for p in pre):
        return [], dict(paths=0, vacuous=True)

    def engine(m_=None, c_=None):
        m_ = m_ or mod
        c_ = c_ or contract
        e = Engine(m_.funcs, 'B', call_models=c_.call_models('B'), ctx=ctx, fname=c_.func)
        e.classes = {cn: {m.name: m for m in cd.body if hasattr(m, 'name')} for cn, cd in m_.classes.items()}
        return e
    e1 = engine()
    names = [a.arg for a in fdef.args.args]
    for a_, d_ in zip(names[len(names) - len(fdef.args.defaults):], fdef.args.defaults):
        if a_ not in st.vars:
            st.vars[a_] = e1.ev(d_, st, PC([]))
    args1 = arg_values(ctx, st)
    pc0 = PC(pre)
    if not e1.feasible(pc0):
        return [], dict(paths=0, vacuous=True)
    paths1 = run_function(e1, fdef, st, pc0)
    obls = []
    n1 = n2 = 0
    for (s1, pc1, o1) in paths1:
        if o1 is None or o1[0] != 'ret':
            continue
        n1 += 1
        out1 = ret_lists(s1, o1[1])
        args2, extra = rel.transform(ctx, args1)
        if subst:
            args2 = {k: subst_value(v, subst) for k, v in args2.items()}
            extra = [subst_value(h, subst) for h in extra]
            extra = [h for h in extra if h is not True]
            if any(h is False for h in extra):
                continue
        e2 = engine(mod2, c2)
        pc_start = PC(pc1.hyp() + [h for h in extra if h is not True])
        if not e2.feasible(pc_start):
            continue
        s2 = state_from(args2)
        names2 = [a.arg for a in fdef2.args.args]
        for a_ in names2:
            if a_ not in s2.vars and a_ in st.vars and contract2 is None:
                s2.vars[a_] = st.vars[a_]
        for a_, d_ in zip(names2[len(names2) - len(fdef2.args.defaults):], fdef2.args.defaults):
            if a_ not in s2.vars:
                s2.vars[a_] = e2.ev(d_, s2, PC([]))
        paths2 = run_function(e2, fdef2, s2, pc_start)
        for (s2b, pc2, o2) in paths2:
            if o2 is None or o2[0] != 'ret':
                obls.append(Obl("%s.second-run-ends-with-%s" % (rel.name, o2[0] if o2 else 'none'), pc2.hyp(), z3.BoolVal(False), 'safety'))
                continue
            n2 += 1
            out2 = ret_lists(s2b, o2[1])
            runs.append((args1, out1, args2, out2, pc2))
            for nm, f in rel.relate(ctx, out1, out2, args1, args2):
                if f is True:
                    f = z3.BoolVal(True)
                if f is False:
                    f = z3.BoolVal(False)
                obls.append(Obl("%s.%s" % (rel.name, nm), pc2.hyp(), f, 'post'))
    st_ = dict(paths=n1, pairs=n2)
    if want_runs:
        st_['_runs'] = runs
    return obls, st_


def subst_value(v, subst):
    """replace auxiliary symbols (shift, MRTS2, ...) by model values"""
    if isinstance(v, list):
        return [subst_value(x, subst) for x in v]
    if isinstance(v, NF):
        return NF(subst_value(v.term, subst), subst_value(v.fin, subst))
    if is_z3(v):
        r = z3.simplify(z3.substitute(v, *[(z3.Real(k), toR(x)) for k, x in subst.items()]))
        if z3.is_rational_value(r):
            f = r.as_fraction()
            return int(f) if f.denominator == 1 else f
        if z3.is_true(r):
            return True
        if z3.is_false(r):
            return False
        return r
    return v


class RelGroup(Group):
    strength = 'B'

    def __init__(self, name, contract, relations, sizes_quick, sizes_thorough, bound_text, timeout_ms=10000, allow_open=(), contract2=None):
        self.name, self.contract, self.relations = name, contract, relations
        self.contract2 = contract2
        self.sizes = dict(quick=list(sizes_quick), thorough=list(sizes_thorough))
        self.bound_text = bound_text
        self.timeout_ms = timeout_ms
        self.functions = [(contract.rel, contract.func, contract.cls)] + ([(contract2.rel, contract2.func, contract2.cls)] if contract2 else [])
        self.allow_open = tuple(allow_open)     # relation names whose undecided (unknown) goals are reported, not failed

    def tasks(self, tier):
        return [(r.name, sz) for sz in self.sizes[tier] for r in self.relations]

    def generate(self, task, known=()):
        rname, size = task
        rel = [r for r in self.relations if r.name == rname][0]
        t = time.time()
        c = self.contract
        prefix = "%s%s" % (self.name, str(tuple(size)).replace(' ', ''))
        done = {}
        open_ok = rname in self.allow_open
        if getattr(c, 'opaque', None) is not None:
            c.opaque(True)
            try:
                obls, stats = relational_obligations(c, size, rel, self.contract2)
                solve_inline(obls, c.extra_facts(), 1500 if open_ok else 5000, done, 'z3-5.1(py)+opaque-spec', keep_sat=False)
            finally:
                c.opaque(False)
        obls, stats = relational_obligations(c, size, rel, self.contract2)
        solve_inline(obls, [], 1500 if open_ok else self.timeout_ms, done, 'z3-5.1(py)', keep_sat=True)
        jobs = []
        undecided = 0
        for n_, o in enumerate(obls):
            nm = "%s:%s#%d" % (prefix, o.name, n_)
            if n_ in done:
                jobs.append(dict(name=nm, subgoals=[nm.split(':', 1)[1]], presolved=done[n_], group=self.name, task=('B', size)))
            elif open_ok:
                undecided += 1
            else:
                more = merge_by_hyp([o], prefix + '.open%d' % n_, 60000)
                for j in more:
                    j['group'] = self.name
                    j['task'] = ('B', size)
                jobs.extend(more)
        stats['gen_s'] = round(time.time() - t, 2)
        stats['obligations'] = len(obls)
        stats['undecided_not_counted'] = undecided
        return jobs, stats


AUX_SYMBOLS = ('shift', 'MRTS2', 'max_tau2')


def confirm_relational(group, size, rname, model):
    """replay of a refuted relational obligation: both runs on the real code (CPython) and exactly"""
    from . import confirm as C
    from .harness import exact
    rel = [r for r in group.relations if r.name == rname][0]
    c1, c2 = group.contract, (group.contract2 or group.contract)
    ctx = c1.setup('B', size)[2]
    values = C.inputs_from_model(ctx.inputs, model)
    subst = {k: exact(float(C.parse_num(model[k]))) for k in AUX_SYMBOLS if k in model}
    obls, stats = relational_obligations(c1, size, rel, group.contract2, values=values, subst=subst, want_runs=True)
    failed = []
    for o in obls:
        if all(C.truth(subst_value(h, subst)) is True for h in o.hyp):
            if C.truth(subst_value(o.goal, subst)) is False:
                failed.append(o.name)
    out = dict(values=values, aux=dict((k, float(v)) for k, v in subst.items()), failed=failed, relation=rname)
    runs = [r for r in stats.get('_runs', []) if all(C.truth(subst_value(h, subst)) is True for h in r[4].hyp())]
    if not runs:
        out['verdict'] = 'holds' if not failed else 'undecided'
        return out
    a1, o1, a2, o2, _ = runs[0]

    def fl(v):
        v = subst_value(v, subst)
        if isinstance(v, list):
            return {'__array__': [float(split(x)[0]) if not isinstance(x, NF) else float('nan') for x in v]}
        if isinstance(v, bool):
            return v
        return float(v)
    ctx2 = c2.setup('B', size)[2] if hasattr(c2, 'setup') else None
    order1 = ctx.argorder
    import ast as _ast
    from . import source
    f2 = source.module(c2.rel).func(c2.func, c2.cls)
    order2 = [a.arg for a in f2.args.args if a.arg in a2]
    calls = [dict(rel=c1.rel, func=c1.func, cls=c1.cls, args=[fl(a1[p]) for p in order1], compiled_standin=c1.rel.endswith('.pyx')),
             dict(rel=c2.rel, func=c2.func, cls=c2.cls, args=[fl(a2[p]) for p in order2], compiled_standin=c2.rel.endswith('.pyx'))]
    real = C.run_real(calls)
    ex1 = C.exact_value(State(), [[subst_value(x, subst) for x in l] if isinstance(l, list) else subst_value(l, subst) for l in (o1 if isinstance(o1, list) else [o1])])
    ex2 = C.exact_value(State(), [[subst_value(x, subst) for x in l] if isinstance(l, list) else subst_value(l, subst) for l in (o2 if isinstance(o2, list) else [o2])])
    ok = True
    for r_, ex in zip(real, (ex1, ex2)):
        if not r_['ok']:
            ok = False
            continue
        rv = C.real_value(r_['result'])
        if not isinstance(rv, list):
            rv = [rv]
        ok = ok and C.agree(ex, rv)
    out.update(real=real, exact=[C.jsonable(ex1), C.jsonable(ex2)], consistent=ok, calls=calls)
    out['verdict'] = 'mismatch' if not ok else ('violation' if failed else 'holds')
    return out
