"""Value layer of the verifier: symbolic / concrete values, arrays on a heap, helper algebra.

Value universe
  int, bool, Fraction, None, str      concrete Python values (float literals become Fractions)
  z3 ArithRef (Int / Real), BoolRef   symbolic scalars (reals are mathematical reals, DESIGN 3.1)
  NF(term, fin)                       a real that may be non-finite: fin is the z3 Bool "is finite"
  ArrV(buf, off, n)                   1-D array view into heap buffer `buf` (aliasing is modelled)
  LazyArr(n, fn)                      value-type element-wise expression (a+b, a*c ...), not on the heap
  Rec(id)                             object with attributes (heap[id] is its field dict)
  tuple / list                        Python containers of values
"""
import itertools
from fractions import Fraction
import z3

R = z3.RealSort()
I = z3.IntSort()
B = z3.BoolSort()
ARR = z3.ArraySort(I, R)
FARR = z3.ArraySort(I, B)
IARR = z3.ArraySort(I, I)

_cnt = itertools.count()


def fresh(prefix, sort):
    return z3.Const("%s!%d" % (prefix, next(_cnt)), sort)


MEMO = {}          # per-run memo of spec terms (cleared with the fresh-name counter)
_SEXPR = {}        # ast id -> (term, printed form) : canonical operand order of n-ary max / min


def reset_fresh():
    global _cnt
    _cnt = itertools.count()
    MEMO.clear()


def skey(t_):
    k = t_.get_id()
    e = _SEXPR.get(k)
    if e is None:
        if len(_SEXPR) > 200000:
            _SEXPR.clear()
        e = (t_, t_.sexpr())
        _SEXPR[k] = e
    return e[1]


def is_z3(x):
    return isinstance(x, z3.ExprRef)


def is_int_sorted(x):
    return is_z3(x) and x.sort() == I


def is_real_sorted(x):
    return is_z3(x) and x.sort() == R


class NF(object):
    """possibly non-finite real: value `term` is meaningful only where `fin` holds."""
    __slots__ = ("term", "fin")

    def __init__(self, term, fin):
        self.term, self.fin = term, fin

    def __repr__(self):
        return "NF(%s | %s)" % (self.term, self.fin)


def split(x):
    """-> (term, fin) ; fin is True or a z3 Bool"""
    if isinstance(x, NF):
        return x.term, x.fin
    return x, True


def wrap(term, fin):
    if fin is True:
        return term
    if fin is False:
        fin = z3.BoolVal(False)
    return NF(term, fin)


def num(x):
    """python number -> exact python number (float literal -> Fraction)"""
    if isinstance(x, float):
        f = Fraction(repr(x))
        return int(f) if f.denominator == 1 else f
    return x


def toR(x):
    if isinstance(x, bool):
        return z3.RealVal(1 if x else 0)
    if isinstance(x, int):
        return z3.RealVal(x)
    if isinstance(x, Fraction):
        return z3.RealVal(str(x.numerator)) / z3.RealVal(str(x.denominator)) if x.denominator != 1 \
            else z3.RealVal(str(x.numerator))
    if isinstance(x, float):
        return toR(num(x))
    if is_z3(x):
        if x.sort() == I:
            return z3.ToReal(x)
        if x.sort() == B:
            return z3.If(x, z3.RealVal(1), z3.RealVal(0))
        return x
    raise TypeError("toR: %r" % (x,))


def toI(x):
    if isinstance(x, bool):
        return z3.IntVal(int(x))
    if isinstance(x, int):
        return z3.IntVal(x)
    if is_int_sorted(x):
        return x
    raise TypeError("toI: %r" % (x,))


def toB(x):
    if isinstance(x, bool):
        return z3.BoolVal(x)
    if is_z3(x) and x.sort() == B:
        return x
    raise TypeError("toB: %r" % (x,))


def is_concrete(x):
    return isinstance(x, (int, Fraction, bool)) and not is_z3(x)


def isrealish(x):
    return isinstance(x, (Fraction, float)) or is_real_sorted(x) or isinstance(x, NF)


def band(*xs):
    out = []
    for x in xs:
        if x is True:
            continue
        if x is False:
            return False
        out.append(x)
    if not out:
        return True
    if len(out) == 1:
        return out[0]
    return z3.And(*out)


def bor(*xs):
    out = []
    for x in xs:
        if x is False:
            continue
        if x is True:
            return True
        out.append(x)
    if not out:
        return False
    if len(out) == 1:
        return out[0]
    return z3.Or(*out)


def bnot(a):
    if isinstance(a, bool):
        return not a
    return z3.Not(a)


def implies(a, b):
    if a is True:
        return b
    if a is False:
        return True
    if b is True:
        return True
    if b is False:
        return bnot(a)
    return z3.Implies(a, b)


def ite(c, a, b):
    if c is True:
        return a
    if c is False:
        return b
    ta, fa = split(a)
    tb, fb = split(b)
    if isinstance(ta, bool) or isinstance(tb, bool) or (is_z3(ta) and ta.sort() == B) or (is_z3(tb) and tb.sort() == B):
        return z3.If(c, toB(ta), toB(tb))
    if isrealish(ta) or isrealish(tb):
        ta, tb = toR(ta), toR(tb)
    else:
        ta, tb = toI(ta), toI(tb)
    fin = True
    if fa is not True or fb is not True:
        fin = z3.If(c, toB(fa), toB(fb))
    return wrap(z3.If(c, ta, tb), fin)


_OPS = {
    '+': lambda a, b: a + b, '-': lambda a, b: a - b, '*': lambda a, b: a * b,
}

# Optional abstraction of NONLINEAR real arithmetic (used by inductive contracts whose VCs mix quantifiers with
# products): x*y and x/y with two symbolic operands become applications of uninterpreted functions MUL / DIV, of which
# only a few valid algebraic laws are revealed (UF_AXIOMS). Everything proved that way holds for the reals (the laws
# are theorems of real arithmetic); multiplication / division by numerals stays interpreted.
UF = {'on': False}
MUL = z3.Function('MUL', R, R, R)
DIV = z3.Function('DIV', R, R, R)


# finite sum of a sequence: SIGMA(f, m) stands for f[0] + ... + f[m-1], f given as a lambda array. It is a NAME for the
# finite sum (np.sum's assumed contract returns it, specs are written with it); two sums are equal when their summand
# functions are (z3 decides equality of lambda arrays by extensionality) and their lengths are.
SIGMA = z3.Function('SIGMA', z3.ArraySort(z3.IntSort(), z3.RealSort()), z3.IntSort(), z3.RealSort())


def sigma(fn, m, name='ks'):
    """SIGMA over k in [0, m) of fn(k) (fn builds a real-valued term from a z3 Int)"""
    k = z3.Int('%s!sig%d' % (name, next(_cnt)))
    t = fn(k)
    t = split(t)[0] if not is_z3(t) or not z3.is_expr(t) else t
    return SIGMA(z3.Lambda([k], toR(t)), toI(m))


def _is_num(t):
    return z3.is_rational_value(t) or z3.is_int_value(t) or z3.is_algebraic_value(t)


def uf_axioms():
    """quantified forms (E-matching, none of them generates new MUL / DIV applications); the ground instances for the
    applications that occur in an obligation are added by pv/ufarith.py"""
    a, L, d, b = z3.Reals('a!u L!u d!u b!u')
    return [z3.ForAll([a], z3.And(MUL(a, 0) == 0, MUL(0, a) == 0)),
            # commutativity also for products that only appear under a binder (summands of SIGMA): each instance creates
            # at most the swapped application, so matching terminates
            z3.ForAll([a, b], MUL(a, b) == MUL(b, a), patterns=[MUL(a, b)]),
            z3.ForAll([a, L], z3.Implies(L != 0, DIV(MUL(a, L), L) == a), patterns=[DIV(MUL(a, L), L)]),
            z3.ForAll([d], z3.Implies(d != 0, DIV(0, d) == 0))]


def arith(op, a, b):
    """+ - * / on scalars (python exact numbers, z3 Int/Real, NF). `/` is true division."""
    ta, fa = split(a)
    tb, fb = split(b)
    fin = band(fa, fb)
    if isinstance(ta, bool):
        ta = int(ta)
    if isinstance(tb, bool):
        tb = int(tb)
    ta, tb = num(ta), num(tb)
    if op == '/':
        if is_concrete(ta) and is_concrete(tb):
            if tb == 0:
                return wrap(z3.RealVal(0), False)
            r = Fraction(ta) / Fraction(tb)
            return wrap(int(r) if r.denominator == 1 else r, fin)
        ra, rb = toR(ta), toR(tb)
        if is_concrete(tb):
            if tb == 0:
                return wrap(z3.RealVal(0), False)
            return wrap(ra / rb, fin)
        if UF['on'] and not _is_num(rb):
            return wrap(DIV(ra, rb), band(fin, rb != 0))
        return wrap(ra / rb, band(fin, rb != 0))
    if is_concrete(ta) and is_concrete(tb):
        r = _OPS[op](ta, tb)
        if isinstance(r, Fraction) and r.denominator == 1:
            r = int(r)
        return wrap(r, fin)
    if isrealish(ta) or isrealish(tb):
        conc = is_concrete(ta) or is_concrete(tb)
        ta, tb = toR(ta), toR(tb)
        if op == '*' and UF['on'] and not conc and not _is_num(ta) and not _is_num(tb):
            return wrap(MUL(ta, tb), fin)
    else:
        ta, tb = toI(ta), toI(tb)
    return wrap(_OPS[op](ta, tb), fin)


_CMPS = {
    '<': lambda a, b: a < b, '<=': lambda a, b: a <= b, '>': lambda a, b: a > b,
    '>=': lambda a, b: a >= b, '==': lambda a, b: a == b, '!=': lambda a, b: a != b,
}


def cmp(op, a, b):
    """comparison of finite scalars -> bool | z3 Bool. Callers must discharge finiteness."""
    ta, _ = split(a)
    tb, _ = split(b)
    if ta is None or tb is None:
        if op == '==':
            return ta is tb
        if op == '!=':
            return ta is not tb
        raise TypeError("ordering None")
    if isinstance(ta, str) or isinstance(tb, str):
        return _CMPS[op](ta, tb)
    if isinstance(ta, bool) and not is_z3(tb):
        ta = int(ta)
    if isinstance(tb, bool) and not is_z3(ta):
        tb = int(tb)
    ta, tb = num(ta), num(tb)
    if is_concrete(ta) and is_concrete(tb):
        return bool(_CMPS[op](ta, tb))
    if (is_z3(ta) and ta.sort() == B) or (is_z3(tb) and tb.sort() == B):
        ta = toB(ta) if not isinstance(ta, int) or isinstance(ta, bool) else z3.BoolVal(bool(ta))
        tb = toB(tb) if not isinstance(tb, int) or isinstance(tb, bool) else z3.BoolVal(bool(tb))
        return _CMPS[op](ta, tb)
    if isrealish(ta) or isrealish(tb):
        ta, tb = toR(ta), toR(tb)
    else:
        ta, tb = toI(ta), toI(tb)
    return _CMPS[op](ta, tb)


_MM = {}   # id of a max/min term -> (kind, args tuple, term)  : canonical n-ary max / min


def _mm(kind, a, b):
    ta, fa = split(a)
    tb, fb = split(b)
    ta, tb = num(ta), num(tb)
    fin = band(fa, fb)
    if is_concrete(ta) and is_concrete(tb):
        return wrap(max(ta, tb) if kind == 'max' else min(ta, tb), fin)
    real = isrealish(ta) or isrealish(tb)
    args = []
    for t in (ta, tb):
        if is_z3(t) and t.get_id() in _MM and _MM[t.get_id()][0] == kind:
            args.extend(_MM[t.get_id()][1])
        else:
            args.append(t)
    real = real or any(isrealish(x) for x in args)
    args = [toR(x) if real else toI(x) for x in args]
    # concrete members fold into one
    cs = [x for x in args if z3.is_rational_value(x) or z3.is_int_value(x)]
    if len(cs) > 1:
        vals = [x.as_fraction() if z3.is_rational_value(x) else Fraction(x.as_long()) for x in cs]
        best = cs[vals.index(max(vals) if kind == 'max' else min(vals))]
        args = [x for x in args if not (z3.is_rational_value(x) or z3.is_int_value(x))] + [best]
    uniq = {}
    for x in args:
        uniq[x.get_id()] = x
    # canonical order by the printed term, NOT by z3's ast id: ids depend on what the process created before, and a
    # different operand order (same meaning) makes solver behaviour differ from run to run
    args = sorted(uniq.values(), key=skey)
    m = args[0]
    for x in args[1:]:
        m = z3.If(m >= x, m, x) if kind == 'max' else z3.If(m <= x, m, x)
    _MM[m.get_id()] = (kind, tuple(args), m)
    return wrap(m, fin)


def rmax(a, b):
    return _mm('max', a, b)


def rmin(a, b):
    return _mm('min', a, b)


def rabs(a):
    ta, fa = split(a)
    ta = num(ta)
    if is_concrete(ta):
        return wrap(abs(ta), fa)
    return wrap(z3.If(ta >= 0, ta, -ta), fa)


def neg(a):
    ta, fa = split(a)
    ta = num(ta)
    return wrap(-ta, fa)


# ---------------------------------------------------------------------------------------------
# quantifier helpers: expand when the range is concrete, otherwise a z3 quantifier

def forall(lo, hi, f, name='k'):
    """forall k in [lo, hi): f(k)"""
    if isinstance(lo, int) and isinstance(hi, int):
        return band(*[f(k) for k in range(lo, hi)])
    k = fresh(name, I)
    body = f(k)
    if body is True:
        return True
    return z3.ForAll([k], z3.Implies(z3.And(toI(lo) <= k, k < toI(hi)), toB(body)))


def exists(lo, hi, f, name='e'):
    if isinstance(lo, int) and isinstance(hi, int):
        return bor(*[f(k) for k in range(lo, hi)])
    k = fresh(name, I)
    body = f(k)
    return z3.Exists([k], z3.And(toI(lo) <= k, k < toI(hi), toB(body)))


def forall2(lo, hi, f, name='k'):
    """forall lo <= a < b < hi: f(a, b)"""
    if isinstance(lo, int) and isinstance(hi, int):
        return band(*[f(a, b) for a in range(lo, hi) for b in range(a + 1, hi)])
    a = fresh(name + 'a', I)
    b = fresh(name + 'b', I)
    return z3.ForAll([a, b], z3.Implies(z3.And(toI(lo) <= a, a < b, b < toI(hi)), toB(f(a, b))))


# ---------------------------------------------------------------------------------------------
# heap objects

class Buf(object):
    """heap buffer. data: z3 Array Int->Real  |  python list of scalar values (bounded mode)
       fin : None (all cells finite) | z3 Array Int->Bool ; list mode keeps NF values in the list
       n   : int | z3 Int ; local: allocated inside the function under verification"""
    __slots__ = ("data", "fin", "n", "local", "name")

    def __init__(self, data, n, local, name, fin=None):
        self.data, self.n, self.local, self.name, self.fin = data, n, local, name, fin

    def is_list(self):
        return isinstance(self.data, list)

    def clone(self, **kw):
        b = Buf(list(self.data) if isinstance(self.data, list) else self.data, self.n, self.local, self.name, self.fin)
        for k, v in kw.items():
            setattr(b, k, v)
        return b


class ArrV(object):
    """array value = view (buffer id, offset, length, stride)"""
    __slots__ = ("buf", "off", "n", "stride")

    def __init__(self, buf, off, n, stride=1):
        self.buf, self.off, self.n, self.stride = buf, off, n, stride

    def __repr__(self):
        return "ArrV(%s,%s,%s)" % (self.buf, self.off, self.n)


class LazyArr(object):
    """element-wise expression: length n, fn(k) -> scalar value (possibly NF)"""
    __slots__ = ("n", "fn")

    def __init__(self, n, fn):
        self.n, self.fn = n, fn


class Rec(object):
    __slots__ = ("id", "cls")

    def __init__(self, id, cls):
        self.id, self.cls = id, cls


class Closure(object):
    def __init__(self, fdef, env):
        self.fdef, self.env = fdef, env


class State(object):
    def __init__(self, vars=None, heap=None):
        self.vars = vars if vars is not None else {}
        self.heap = heap if heap is not None else {}

    def copy(self):
        # python lists are mutable values (append / item assignment): forked states must not share them
        vs = {k: (list(v) if type(v) is list else v) for k, v in self.vars.items()}
        return State(vs, dict(self.heap))

    # --- heap helpers -----------------------------------------------------------------------
    def alloc(self, data, n, name, local=True, fin=None):
        bid = "b%d" % next(_cnt)
        self.heap[bid] = Buf(data, n, local, name, fin)
        return ArrV(bid, 0, n)

    def new_rec(self, cls, fields):
        rid = "r%d" % next(_cnt)
        self.heap[rid] = dict(fields)
        return Rec(rid, cls)

    def elem(self, a, i):
        """value of a[i] (no bounds obligation here). i: int | z3 Int"""
        if isinstance(a, LazyArr):
            return a.fn(i)
        b = self.heap[a.buf]
        st = a.stride
        idx = arith('+', a.off, arith('*', i, st) if st != 1 else i) if not (a.off == 0 and isinstance(a.off, int)) \
            else (arith('*', i, st) if st != 1 else i)
        if b.is_list():
            if isinstance(idx, int):
                return b.data[idx]
            # symbolic index into a concrete list: ite chain
            out = b.data[-1] if b.data else z3.RealVal(0)
            for k in range(len(b.data) - 2, -1, -1):
                out = ite(toI(idx) == k, b.data[k], out)
            return out
        t = z3.Select(b.data, toI(idx))
        if b.fin is None:
            return t
        return wrap(t, z3.Select(b.fin, toI(idx)))

    def acc(self, a):
        return Acc(self, a)


class Acc(object):
    """read accessor used by contracts: A[k] -> term, A.fin(k) -> finiteness, A.n length"""

    def __init__(self, st, a):
        if isinstance(a, str):
            a = st.vars[a]
        self.st, self.a = st, a
        self.n = a.n

    def __getitem__(self, k):
        return split(self.st.elem(self.a, k))[0]

    def fin(self, k):
        return split(self.st.elem(self.a, k))[1]

    def val(self, k):
        return self.st.elem(self.a, k)

    def all_fin(self, lo=0, hi=None):
        hi = self.n if hi is None else hi
        if isinstance(self.a, ArrV):
            b = self.st.heap[self.a.buf]
            if not b.is_list() and b.fin is None:
                return True
        return forall(lo, hi, lambda k: self.fin(k), name='f')


def simp(x):
    if is_z3(x):
        return z3.simplify(x)
    return x
