"""Harness: run one real function under its sidecar contract and turn everything into solver jobs."""
import ast
import z3
from .sym import *  # noqa
from .engine import Engine, PC, run_function, Unsupported, Unbound, PathAbort, LoopSpec, Obl
from . import solve, source


class Ctx(object):
    """bag of symbolic inputs of one verification run"""

    def __init__(self, **kw):
        self.__dict__.update(kw)


def in_array(st, name, n, mode, values=None):
    """input array `name` of length n (int in B mode, z3 Int in P mode); not local => frame-protected.
    values: concrete replay input {name: [numbers]} -> exact Fractions instead of symbols"""
    if values is not None and name in values:
        data = [exact(v) for v in values[name]]
        return st.alloc(data, len(data), name, local=False)
    if mode == 'B':
        data = [z3.Real("%s_%d" % (name, k)) for k in range(n)]
        return st.alloc(data, n, name, local=False)
    return st.alloc(z3.Const(name, ARR), n, name, local=False)


def exact(v):
    """float -> the exact rational it denotes"""
    from fractions import Fraction
    if isinstance(v, bool):
        return v
    f = Fraction(v)
    return int(f) if f.denominator == 1 else f


def in_real(name, values=None):
    if values is not None and name in values:
        return exact(values[name])
    return z3.Real(name)


def in_int(name, mode, size_value, values=None):
    if values is not None and name in values:
        return int(values[name])
    if mode == 'B':
        return size_value
    return z3.Int(name)


class Contract(object):
    """Base class of sidecar contracts. Subclasses define:
         rel, func            : file (relative to /repo) and function name
         setup(mode, size)    : -> (State, [pre...], ctx)
         loops                : {ordinal: LoopSpec}
         posts(st, ret, ctx)  : -> [(name, formula)]
         call_models(ctx)     : {callee name: model}
    """
    rel = None
    func = None
    cls = None
    loops = {}
    nf_arrays = ()
    allow_raise = ()
    use_models = True

    def call_models(self, mode):
        return {}

    def modifies(self, st, ctx):
        return ()

    def funcdef(self):
        return source.module(self.rel).func(self.func, self.cls)


def function_obligations(contract, mode, size, label=None, extra_posts=None, values=None, want_paths=False):
    """-> (list of Obl, stats dict). Raises Unsupported / Unbound (=> undecided).
    Known findings (contract.known): entries are carve predicates over the context, or (carve, pinned) pairs. The main
    run excludes every carved input class; for a pinned entry the class is verified separately against
    'the recorded defective result OR the correct result', so any OTHER change of behaviour inside the class (and every
    safety obligation) is still reported."""
    known = list(getattr(contract, 'known', ()))
    carves = [k[0] if isinstance(k, tuple) else k for k in known]
    obls, stats = _run_contract(contract, mode, size, extra_posts, values, want_paths, exclude=carves, only=None, pinned=None)
    for k in known:
        if isinstance(k, tuple) and k[1] is not None:
            o2, s2 = _run_contract(contract, mode, size, None, values, False, exclude=[], only=k[0], pinned=k[1])
            for o in o2:
                o.name = 'known-class.' + o.name
            obls.extend(o2)
            stats['known_class_paths'] = stats.get('known_class_paths', 0) + s2.get('paths', 0)
    return obls, stats


def _run_contract(contract, mode, size, extra_posts, values, want_paths, exclude, only, pinned):
    from . import sym as _sym
    _sym.UF['on'] = bool(getattr(contract, 'uf_arith', False)) and mode == 'P'
    try:
        return _run_contract2(contract, mode, size, extra_posts, values, want_paths, exclude, only, pinned)
    finally:
        _sym.UF['on'] = False


def _sym_uf_on():
    from . import sym as _sym
    return _sym.UF['on']


def _run_contract2(contract, mode, size, extra_posts, values, want_paths, exclude, only, pinned):
    reset_fresh()
    mod = source.module(contract.rel)
    fdef = mod.func(contract.func, contract.cls)
    if values is not None:
        st, pre, ctx = contract.setup(mode, size, values=values)
    else:
        st, pre, ctx = contract.setup(mode, size)
    for kf in exclude:
        pre = list(pre) + [bnot(kf(ctx))]
    if only is not None:
        pre = list(pre) + [only(ctx)]
    for hid, obj in list(st.heap.items()):
        if isinstance(obj, dict) and not obj.get('__local__', False) and '__declared__' not in obj:
            obj['__declared__'] = frozenset(k for k in obj if not k.startswith('__'))
    pre = [p for p in pre if p is not True]
    if any(p is False for p in pre):
        return [], dict(paths=0, vacuous=True)
    eng = Engine(mod.funcs, mode,
                 loop_specs={(contract.func, k): v for k, v in contract.loops.items()} if mode == 'P' else {},
                 call_models=contract.call_models(mode), ctx=ctx, fname=contract.func,
                 nf_arrays=contract.nf_arrays, modifies=contract.modifies(st, ctx))
    eng.classes = {cn: {m.name: m for m in cd.body if hasattr(m, 'name')} for cn, cd in mod.classes.items()}
    eng.config = getattr(contract, 'config', 'fallback')
    if getattr(contract, 'unroll_bound', None) is not None:
        eng.unroll_bound = contract.unroll_bound
    # parameters with defaults that the contract did not bind
    names = [a.arg for a in fdef.args.args]
    for a_, d_ in zip(names[len(names) - len(fdef.args.defaults):], fdef.args.defaults):
        if a_ not in st.vars:
            st.vars[a_] = eng.ev(d_, st, PC([]))
    pc = PC(pre)
    if mode == 'B' and not eng.feasible(pc):
        return [], dict(paths=0, vacuous=True)
    paths = run_function(eng, fdef, st, pc)
    obls = list(eng.obls)
    nret = 0
    for (st2, pc2, out) in paths:
        if out is None:
            out = ('ret', None)
        if out[0] == 'raise':
            if out[1] in contract.allow_raise:
                for nm, f in contract.raise_posts(st2, out, ctx):
                    obls.append(Obl("raise-post.%s" % nm, pc2.hyp(), f, 'post'))
                continue
            obls.append(Obl("no-exception:%s@%d" % (out[1], out[2]), pc2.hyp(), z3.BoolVal(False), 'safety'))
            continue
        if out[0] != 'ret':
            raise Unsupported("function ends with %s" % out[0])
        nret += 1
        ctx.pc_hyp = pc2.hyp()
        if mode == 'P':
            obls.append(Obl("return.canary", pc2.hyp(), z3.BoolVal(False), 'canary'))
        try:
            posts = contract.posts(st2, out[1], ctx)
        except KeyError as ex:
            if mode != 'P':
                raise
            from .engine import Unbound
            raise Unbound("postcondition witnesses of %s refer to %s, which the current source does not define on a returning path" % (contract.func, ex))
        if pinned is not None:
            allp = band(*[f for _, f in posts])
            defect = pinned(ctx, st2, out[1])
            posts = [('recorded-defect-or-correct', bor(defect, allp))]
        for nm, f in posts:
            if f is True:
                # still count it: a clause that folds to True on this path is discharged syntactically
                f = z3.BoolVal(True)
            if f is False:
                f = z3.BoolVal(False)
            obls.append(Obl("post.%s" % nm, pc2.hyp(), f, 'post', meta=dict(path=nret)))
        if extra_posts:
            for nm, f in extra_posts(st2, out[1], ctx):
                obls.append(Obl("post.%s" % nm, pc2.hyp(), toB(f) if not is_z3(f) else f, 'post', meta=dict(path=nret)))
    stats = dict(paths=len(paths), returning=nret, forks=eng.nforks, pruned=eng.npruned, loops=sorted(eng.loop_cover))
    if getattr(eng, 'ncut', 0):
        stats['paths_cut_at_unroll_bound'] = eng.ncut
    if _sym_uf_on():
        from . import ufarith
        obls = [ufarith.instantiate(o, getattr(ctx, 'defs', ())) for o in obls]
        if getattr(contract, 'split_cases', False):
            obls = [q for o in obls for q in (ufarith.case_split(o) if o.kind in ('loop', 'post') else [o])]
        stats['uf_instances'] = sum(o.meta.get('uf_instances', 0) for o in obls)
    if want_paths:
        stats['_paths'] = paths
        stats['_ctx'] = ctx
    return obls, stats


def entailed(hyp, goal, timeout_ms=3000):
    """cheap entailment query used to pick spec witnesses under a path condition (never used to discharge)"""
    if goal is True:
        return True
    if goal is False:
        return False
    s = z3.Solver()
    s.set('timeout', timeout_ms)
    for h in hyp:
        if h is True:
            continue
        s.add(h if h is not False else z3.BoolVal(False))
    s.add(z3.Not(goal))
    return s.check() == z3.unsat


def fold_max(hyp, a, b):
    """max(a,b) decided under the path condition where possible (keeps spec terms ite-free)"""
    ta, tb = split(a)[0], split(b)[0]
    if hyp is not None and (is_z3(ta) or is_z3(tb)):
        if entailed(hyp, cmp('>=', ta, tb), 1500):
            return a
        if entailed(hyp, cmp('<=', ta, tb), 1500):
            return b
    return rmax(a, b)


def fold_min(hyp, a, b):
    ta, tb = split(a)[0], split(b)[0]
    if hyp is not None and (is_z3(ta) or is_z3(tb)):
        if entailed(hyp, cmp('<=', ta, tb), 1500):
            return a
        if entailed(hyp, cmp('>=', ta, tb), 1500):
            return b
    return rmin(a, b)


def fold_bool(hyp, c):
    if isinstance(c, bool) or hyp is None:
        return c
    if entailed(hyp, c, 1500):
        return True
    if entailed(hyp, bnot(c), 1500):
        return False
    return c


def jobs_from(obls, prefix, timeout_ms=30000, portfolio=True, cache=True, want_model=True):
    jobs = []
    for n_, o in enumerate(obls):
        g = o.goal
        if g is True:
            g = z3.BoolVal(True)
        jobs.append(dict(name="%s:%s#%d" % (prefix, o.name, n_), smt=solve.to_smt2(o.hyp, g),
                         timeout_ms=timeout_ms, portfolio=portfolio, cache=cache, want_model=want_model,
                         kind=o.kind))
    return jobs
