"""property id -> obligation groups per tier, claimed level, notes."""

PROPS = {
    'C01': dict(
        title='ISI-profile equals the ISI-distance definition',
        level='proof',
        groups=dict(quick=['isi_py.P', 'isi_pyx.P'], thorough=['isi_py.P', 'isi_pyx.P', 'isi_py.B']),
        explanation='inductive proof (loop invariant with ghost cover indices) of the ISI kernel against the C01 definition, '
                    'Python fallback and extracted Cython text',
    ),
}
