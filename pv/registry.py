"""property id -> obligation groups per tier, claimed level, notes.
Strength of every group (P inductive / L lemma / B(k) bounded) is recorded in the group itself and reported
separately in evidence; `level` is 'proof' only where every registered group is P or L."""

KPY = ['gmd_py.P', 'dist_at_t_py.P']
KPYX = ['gmd_prof_pyx.P', 'dist_at_t_prof_pyx.P']
SPIKEP = ['spike_py.P', 'spike_ri_py.P', 'spike_pyx.P', 'spike_ri_pyx.P']


def both(quick, extra_thorough=()):
    return dict(quick=list(quick), thorough=list(quick) + list(extra_thorough))


PROPS = {
    'C01': dict(
        title='ISI-profile equals the ISI-distance definition', level='proof',
        groups=both(['isi_py.P', 'isi_pyx.P', 'lemmas.cover', 'nonempty.P', 'reconcile.B', 'plumb.forms', 'plumb.reconcile'], ['isi_py.B']),
        technique='inductive VCs (loop invariant + ghost cover indices) generated from the Python AST of the real kernel, discharged by z3/cvc5',
        explanation='inductive proof of isi_distance_python and of the extracted isi_profile_cython against the C01 definition '
                    '(breakpoints = edges + interior spikes, value = |v1-v2|/max(v1,v2,MRTS) of the covering ISIs with the edge rules, '
                    'all returned cells finite); lemma: covering intervals => no spike strictly inside a segment; '
                    'get_spikes_non_empty (empty train -> one interval over the recording) proved loop-free; input preparation (reconcile_spike_trains) and '
                    'the wrapper glue (kernel receives the reconciled trains, edges and MRTS; profile object built from the kernel result) bounded',
    ),
    'C02': dict(
        assumptions=['SPIKE scan proof (spike_*.P): get_min_dist is replaced by its contract (result = the opaque nearest-spike distance MD(tau), of which '
                     '0 <= MD(tau) <= |tau - e| for every spike e of the other train is revealed; the contract itself is proved in gmd_*.P, its precondition is an '
                     'obligation at every call); dist_at_t is replaced by its contract (value equation, proved in dist_at_t_*.P; precondition obliged at every call); '
                     'products / quotients of two symbolic reals are uninterpreted (MUL/DIV) with ground instances of valid real-arithmetic laws (pv/ufarith.py) - '
                     'an abstraction that can only lose proofs, not create them'],
        title='SPIKE-profile equals the SPIKE-distance definition', level='other',
        groups=both(KPY + KPYX + SPIKEP + ['spike_py.B', 'spike_pyx.B']),
        technique='contracts on get_min_dist / dist_at_t proved inductively; SPIKE scan proved inductively (loop invariant + ghost cursors, callees by contract, '
                  'products/quotients abstracted to uninterpreted functions with ground algebraic laws); additionally bounded symbolic execution against the literal definition',
        explanation='get_min_dist (loop with early return) and dist_at_t are proved for all inputs; the SPIKE merge scan (py + extracted pyx, RI off/on) is proved '
                    'for all train lengths: every segment has covering cursors a, b and its start/end values equal the C02 value built from the covering '
                    'ISIs and the interpolated nearest-spike distances (constant outside the spikes), events strictly increasing and spike times, all cells finite; '
                    'the same scan is also executed symbolically against the literal definition (nearest-spike distance as n-ary minimum) for the stated sizes',
    ),
    'C03': dict(
        title='SPIKE-Sync profile marks exactly the mutually coincident spikes', level='other',
        groups=both(['get_tau_py.P', 'get_tau_pyx.P', 'sync_py.P', 'sync_pyx.P', 'lemmas.window', 'sync_py.B', 'sync_pyx.B', 'single_py.P', 'single_pyx.P', 'single_py.B', 'single_pyx.B', 'syncval_pyx.P', 'syncval_pyx.B']),
        technique='window routine proved (loop-free, all inputs); scan kernels: bounded symbolic execution against the pairwise definition',
        explanation='get_tau proved equal to the window of the statement for all trains and indices; the profile scan (py + extracted pyx) '
                    'proved inductively in adjacent form (an event is marked iff coincident with the preceding or the following spike of the other train), '
                    'lemmas: coincident pairs are adjacent, adjacent form = pairwise definition, one-to-one; the per-spike indicator (py + pyx) proved inductively in the same adjacent form (the fact that lets the scan skip the preceding spike is its first invariant clause); additionally profile / per-spike indicator / '
                    'single-pass kernels checked against the pairwise definition incl. mutual counting for all real inputs of the stated sizes',
    ),
    'C04': dict(
        title='Order / directionality sign convention', level='other',
        groups=both(['order_py.P', 'order_pyx.P', 'dir_py.P', 'dir_pyx.P', 'lemmas.window', 'order_py.B', 'order_pyx.B', 'dir_py.B', 'dir_pyx.B', 'orderval_pyx.P', 'orderval_pyx.B', 'dirval_pyx.P', 'dirval_pyx.B', 'plumb.forms', 'plumb.degenerate']),
        technique='bounded symbolic execution of the scan kernels against the pairwise leader/follower definition; wrappers executed on formal terms',
        explanation='order-profile and directionality scans (py + extracted pyx) proved inductively in adjacent form with the leader/follower sign, lemmas bridge to the pairwise definition; '
                    'additionally kernels vs pairwise definition (sign, zero for simultaneous / non-coincident, swap negates) bounded; values / matrix / synfire '
                    'plumbing (1/(N-1) normalisation, antisymmetric matrix, pooled ratio) on formal terms for every index selection',
    ),
    'C05': dict(
        assumptions=["integral() proofs (…_integral_*.P): np.sum over a slice of symbolic length is the NAMED finite sum SIGMA(summand, length) (assumed contract of np.sum; sum(mask) > 0 as 'some entry is true'); the specification is written with the same name (whole pieces inside the interval + two partial pieces); the bridge to the literal Riemann form (sum over ALL pieces of value * overlap) is a property of finite sums that is not proved - the bounded groups check the literal form", 'avrg() proofs (…_avrg_*.P) are stated against the contract of integral: the callee is an opaque value INT(lo, hi) / MULT(lo, hi) >= 0'],
        title='Scalar = average of the profile', level='other',
        groups=both(['plumb.profile_avg', 'isidist_pyx.P', 'spikedist_pyx.P', 'spikedist_ri_pyx.P', 'isidist_pyx.B', 'spikedist_pyx.B', 'syncval_pyx.P', 'syncval_pyx.B', 'orderval_pyx.P', 'orderval_pyx.B',
                     'pwc_avrg_none.P', 'pwc_avrg_one.P', 'pwc_avrg_list2.P', 'pwc_avrg.B', 'pwl_avrg_none.P', 'pwl_avrg_one.P', 'pwl_avrg_list2.P', 'pwl_avrg.B', 'disc_avrg_none.P', 'disc_avrg_one.P', 'disc_avrg_list2.P', 'disc_avrg.B', 'pwc_integral_none.P', 'pwc_integral_one.P', 'pwc_integral.B', 'pwl_integral_none.P', 'pwl_integral_one.P', 'pwl_integral.B', 'disc_integral_none.P', 'disc_integral_one.P', 'disc_integral.B']),
        technique='wrappers executed on formal terms (scalar route vs averaged profile route); compiled single-pass ISI / SPIKE distances: inductive VCs with the profile as ghost state (events, covering cursors, partial sums characterised pointwise); single-pass SPIKE-Sync / order / directionality values: inductive VCs (events and partial sums as ghost state, adjacent form); all single-pass routines also bounded by self-composition with the profile kernels',
        explanation='for every entry point, call form, keyword class, emptiness pattern and interval the scalar route and the average of the '
                    'profile route reduce to the same normal form; isi_distance_cython and spike_distance_cython (RI off / on) proved for all trains: the result is PS[n]/(t_end-t_start) where the ghost segmentation satisfies the profile postcondition of C01 / C02 and PS[k+1] = PS[k] + value(segment k) * length (trapezoid for SPIKE); coincidence_value_cython / spike_train_order_cython / spike_directionality_cython proved for all trains: the returned sum is the sum over the events of the adjacent-form profile values (the form proved for the profile scans), the multiplicity is the number of spikes; compiled single-pass routines also bounded against the profile kernel; '
                    'avrg of each class is integral/length (C10/C11 contracts)',
    ),
    'C06': dict(
        title='Multivariate = all-pairs aggregate, order independent', level='other',
        groups=both(['plumb.forms', 'plumb.many', 'plumb.repeated', 'plumb.degenerate', 'addpwc_py.P', 'addpwc_pyx.P', 'addpwl_py.P', 'addpwl_pyx.P', 'adddisc_py.P', 'adddisc_pyx.P', 'addpwl_py.B', 'addpwl_pyx.B', 'adddisc_py.B', 'adddisc_pyx.B', 'lemmas.symmetry']),
        technique='wrappers executed on formal terms with symmetric kernel atoms; add kernels under contract',
        explanation='recursive pair halving, pair enumeration from indices, 1/M scaling, pooled sums and matrix filling are compared with the '
                    'all-pairs normal form for every ordered index subset (hence every permutation), for lists of 8 to 17 (quick) / 33 (thorough) trains, for lists in which a train occurs twice and for every emptiness pattern; profile addition is pointwise (C09 / C11 contracts, proved for all operands)',
    ),
    'C07': dict(
        title='Range, symmetry, identity', level='other',
        groups=both(['lemmas.range', 'lemmas.symmetry', 'isi_py.P', 'isi_pyx.P', 'spike_py.B', 'spike_pyx.B', 'sync_py.B', 'sync_pyx.B', 'rel_isi.B', 'rel_spike.B', 'rel_sync.B', 'rel_order.B', 'rel_dir.B', 'plumb.degenerate']),
        technique='lemmas over the spec functions of the kernel contracts + bounded relational (two-run) symbolic execution of the real kernels',
        explanation='ratio in [0,1], window lemmas (L); swap symmetry and identity of the kernels by two-run symbolic execution (bounded); '
                    'SPIKE range [0,1] searched in the same bound (undecided nonlinear queries are reported, not counted)',
    ),
    'C08': dict(
        title='Shift / scale invariance, time-reversal mirror', level='other',
        groups=both(['lemmas.symmetry', 'isi_py.P', 'sync_py.P', 'order_py.P', 'mirror_isi.B', 'mirror_spike.B', 'mirror_sync.B', 'mirror_order.B', 'affine_isi.B', 'affine_spike.B', 'affine_sync.B', 'affine_order.B', 'mirror_isilen.B']),
        technique='bounded relational (two-run) symbolic execution of the real kernels on transformed inputs',
        explanation='each kernel is executed symbolically on (s1,s2) and on the transformed trains; outputs are related as the statement says',
    ),
    'C09': dict(
        assumptions=['method add (…_add_*.P): the kernel is an opaque call (its contract is proved in the add*.P groups); strided slice stores a[lo::2] = b are modelled by a quantified definition of the new array (assumed numpy contract)'],
        title='Adding piecewise profiles is pointwise addition', level='other',
        groups=both(['addpwc_py.P', 'addpwc_pyx.P', 'addpwl_py.P', 'addpwl_pyx.P', 'addpwc_py.B', 'addpwl_py.B', 'addpwl_pyx.B', 'pwc_mul.P', 'pwc_mul.B', 'pwc_copy.P', 'pwc_copy.B', 'pwc_add_fb.P', 'pwc_add_fb.B', 'pwc_add_cy.P', 'pwc_add_cy.B', 'pwl_mul.P', 'pwl_mul.B', 'pwl_copy.P', 'pwl_copy.B', 'pwl_add_fb.P', 'pwl_add_fb.B', 'pwl_add_cy.P', 'pwl_add_cy.B', 'disc_mul.P', 'disc_mul.B', 'disc_copy.P', 'disc_copy.B', 'disc_add_fb.P', 'disc_add_fb.B', 'disc_add_cy.P', 'disc_add_cy.B', 'pwc_hist_copy.B', 'pwl_hist_copy.B', 'pwc_hist_acc_fa.B', 'pwc_hist_acc_co.B', 'pwl_hist_acc_fa.B', 'pwl_hist_acc_co.B', 'pwc_hist_eval.B', 'pwl_hist_eval.B']),
        technique='inductive VCs for the piecewise-constant and the piecewise-linear merge (py + pyx; interpolation with products / quotients abstracted to uninterpreted functions plus ground laws); the class methods add / mul_scalar / copy for any number of pieces (add: modular over the kernel contract); bounded symbolic execution of the same methods with the kernels inlined and of operation histories',
        explanation='add_piece_wise_const and add_piece_wise_lin proved for all inputs (incl. vectorised tail copies / Cython tail loops): every result piece has covering operand pieces and both one-sided limits are the sums of the operands\' lines; the linear merge additionally bounded against the same statement with interpreted arithmetic; the '
                    'add / mul_scalar / copy methods bounded, result arrays never alias an operand; histories (add; mul_scalar; add again - copy; scale the original) executed over the real classes; frame obligations show the operand is not modified',
    ),
    'C10': dict(
        assumptions=["integral() proofs (…_integral_*.P): np.sum over a slice of symbolic length is the NAMED finite sum SIGMA(summand, length) (assumed contract of np.sum; sum(mask) > 0 as 'some entry is true'); the specification is written with the same name (whole pieces inside the interval + two partial pieces); the bridge to the literal Riemann form (sum over ALL pieces of value * overlap) is a property of finite sums that is not proved - the bounded groups check the literal form", 'avrg() proofs (…_avrg_*.P) are stated against the contract of integral: the callee is an opaque value INT(lo, hi) / MULT(lo, hi) >= 0', 'method add (…_add_*.P): the kernel is an opaque call (its contract is proved in the add*.P groups); strided slice stores a[lo::2] = b are modelled by a quantified definition of the new array (assumed numpy contract)'],
        title='Integral, average and evaluation are exact', level='other',
        groups=both(['pwc_integral_none.P', 'pwc_integral_one.P', 'pwc_integral.B', 'pwc_avrg_none.P', 'pwc_avrg_one.P', 'pwc_avrg_list2.P', 'pwc_avrg.B', 'pwc_call.P', 'pwc_call.B', 'pwc_callseq.B', 'pwc_plot.P', 'pwc_plot.B', 'pwl_integral_none.P', 'pwl_integral_one.P', 'pwl_integral.B', 'pwl_avrg_none.P', 'pwl_avrg_one.P', 'pwl_avrg_list2.P', 'pwl_avrg.B', 'pwl_call.P', 'pwl_call.B', 'pwl_callseq.B', 'pwl_plot.P', 'pwl_plot.B', 'pwc_hist_eval.B', 'pwl_hist_eval.B', 'pwc_hist_query.B', 'pwl_hist_query.B']),
        technique='integral() of both classes for any number of pieces (np.sum of a slice of symbolic length = the named finite sum SIGMA, searchsorted as assumed contract): whole pieces inside the interval + the two partial pieces; bounded symbolic execution of all methods against the literal Riemann-sum definition',
        explanation='integral vs sum over pieces of value * overlap, every position of a,b (symbolic); avrg against the contract of integral; '
                    'scalar and vectorised __call__ and plottable arrays; histories over the real classes: evaluate ; mul_scalar ; evaluate and integral/avrg ; add ; mul_scalar ; integral/avrg, each against a fresh object with the same content',
    ),
    'C11': dict(
        assumptions=["integral() proofs (…_integral_*.P): np.sum over a slice of symbolic length is the NAMED finite sum SIGMA(summand, length) (assumed contract of np.sum; sum(mask) > 0 as 'some entry is true'); the specification is written with the same name (whole pieces inside the interval + two partial pieces); the bridge to the literal Riemann form (sum over ALL pieces of value * overlap) is a property of finite sums that is not proved - the bounded groups check the literal form", 'avrg() proofs (…_avrg_*.P) are stated against the contract of integral: the callee is an opaque value INT(lo, hi) / MULT(lo, hi) >= 0'],
        title='Discrete profiles add by event and integrate over open intervals', level='other',
        groups=both(['adddisc_py.P', 'adddisc_pyx.P', 'adddisc_py.B', 'adddisc_pyx.B', 'disc_integral_none.P', 'disc_integral_one.P', 'disc_integral.B', 'disc_avrg_none.P', 'disc_avrg_one.P', 'disc_avrg_list2.P', 'disc_avrg.B', 'disc_plot.P', 'disc_plot.B', 'disc_smooth.B', 'disc_hist_query.B']),
        technique='inductive VCs for the event merge (py + pyx, cursor form); bounded symbolic execution of the kernel against the literal event-wise definition and of the methods',
        explanation='add_discrete_function proved for all inputs: cursors run from the first to the last event in steps of at most one, each advancing step emits exactly that event, values / multiplicities summed where both advance, a non-advancing operand has no event at that time, events strictly increasing; merge of events with summed values / multiplicities, open-interval selection, ratio with empty convention, k=0 plottable '
                    'data; smoothing window k>0 with concrete integer multiplicities; history integral(a,b) ; add ; mul_scalar ; integral(a,b) against a fresh object with the same content',
    ),
    'C12': dict(
        assumptions=['SPIKE scan proof (spike_*.P): get_min_dist is replaced by its contract (result = the opaque nearest-spike distance MD(tau), of which '
                     '0 <= MD(tau) <= |tau - e| for every spike e of the other train is revealed; the contract itself is proved in gmd_*.P, its precondition is an '
                     'obligation at every call); dist_at_t is replaced by its contract (value equation, proved in dist_at_t_*.P; precondition obliged at every call); '
                     'products / quotients of two symbolic reals are uninterpreted (MUL/DIV) with ground instances of valid real-arithmetic laws (pv/ufarith.py) - '
                     'an abstraction that can only lose proofs, not create them'],
        title='Compiled and fallback backends agree', level='other',
        groups=both(['isi_py.P', 'isi_pyx.P', 'gmd_py.P', 'gmd_prof_pyx.P', 'gmd_dist_pyx.P', 'dist_at_t_py.P', 'dist_at_t_prof_pyx.P', 'dist_at_t_dist_pyx.P',
                     'get_tau_py.P', 'get_tau_pyx.P', 'addpwc_py.P', 'addpwc_pyx.P', 'sync_py.P', 'sync_pyx.P', 'order_py.P', 'order_pyx.P', 'dir_py.P', 'dir_pyx.P'] + SPIKEP + ['spike_py.B', 'spike_pyx.B', 'sync_py.B', 'sync_pyx.B',
                     'single_py.P', 'single_pyx.P', 'single_py.B', 'single_pyx.B', 'order_py.B', 'order_pyx.B', 'dir_py.B', 'dir_pyx.B', 'addpwl_py.P', 'addpwl_pyx.P', 'adddisc_py.P', 'adddisc_pyx.P', 'addpwl_py.B', 'addpwl_pyx.B',
                     'adddisc_py.B', 'adddisc_pyx.B', 'isidist_pyx.P', 'spikedist_pyx.P', 'spikedist_ri_pyx.P', 'isidist_pyx.B', 'spikedist_pyx.B', 'syncval_pyx.P', 'syncval_pyx.B', 'orderval_pyx.P', 'orderval_pyx.B', 'dirval_pyx.P', 'dirval_pyx.B']),
        technique='both members of every routine pair verified against the same functional contract (P where proved, B otherwise); .pyx as mechanically extracted text',
        explanation='each pair shares one postcondition that determines the result, so agreement follows; single-pass distances against the '
                    'average of the profile kernel. The real C extension cannot be built here (no Cython): C semantics are an assumption',
    ),
    'C13': dict(
        title='Inputs normalised, never modified', level='other',
        groups=both(['plumb.reconcile', 'reconcile.B', 'plumb.degenerate']),
        technique='reconcile under contract (bounded); wrappers executed on formal terms with disordered input; frame obligations',
        explanation='reconcile_spike_trains against its contract (common edges, strictly increasing distinct spikes, idempotent); every '
                    'entry point on rotated / duplicated spike times reaches the kernels with the normalised trains in both configurations; '
                    'inputs compared before / after each call; kernel frame obligations forbid stores into arguments',
    ),
    'C14': dict(
        title='All call forms and index selections agree', level='other',
        groups=both(['plumb.forms']),
        technique='real wrappers executed on formal terms; exhaustive over call forms and ordered index subsets for N <= bound',
        explanation='two-argument, list, var-args and indices forms of every measure reduce to the same normal form with the same '
                    'interval / max_tau / MRTS / RI, in both configurations',
    ),
    'C15': dict(
        title="MRTS only de-emphasises small time scales; 'auto' = pooled ISI threshold", level='other',
        groups=both(['lemmas.mrts', 'lemmas.window', 'get_tau_py.P', 'get_tau_pyx.P', 'dist_at_t_py.P', 'isi_py.P', 'sync_py.P', 'plumb.auto', 'isilen.B', 'thresh.B', 'thresh_trains.B', 'mrts_isi.B', 'mrts_spike.B', 'mrts_sync.B']),
        technique='scalar lemmas over the spec functions + bounded two-run symbolic execution + wrappers on formal terms',
        explanation='MRTS=0 reduces the specs to the non-adaptive ones, ratio / D non-increasing and window non-decreasing in MRTS (L); '
                    "kernels re-run with two thresholds (bounded); 'auto' is replaced by the pooled threshold of the call's trains on every entry point; "
                    'default_thresh = RMS of pooled ISI lengths (bounded)',
    ),
    'C16': dict(
        title='max_tau is an upper bound on the coincidence window', level='other',
        groups=both(['get_tau_py.P', 'get_tau_pyx.P', 'lemmas.window', 'sync_py.P', 'order_py.P', 'sync_py.B', 'order_py.B', 'dir_py.B', 'single_py.P', 'single_pyx.P', 'single_py.B', 'sync_pyx.B', 'maxtau_sync.B', 'maxtau_single.B', 'plumb.forms', 'plumb.filter']),
        technique='window routine proved for all inputs (loop-free VCs); scan kernels bounded',
        explanation='get_tau returns the C03 window capped at half the limit it is given (= max_tau); monotone in the limit (L); '
                    'coincident pairs closer than max_tau in every scan kernel (bounded)',
    ),
    'C17': dict(
        title='The SPIKE-Sync filter keeps exactly the spikes above threshold', level='other',
        groups=both(['plumb.filter', 'single_py.P', 'single_pyx.P', 'single_py.B', 'single_pyx.B']),
        technique='real filter executed on every 0/1 outcome of the indicator kernel (bounded); indicator kernel under contract',
        explanation='keep iff count > threshold*(N-1), removed iff <=, partition in order on the original interval, inputs unchanged, one '
                    'indicator call per ordered pair with the given max_tau / MRTS; the indicator agrees with the pairwise definition (C03)',
    ),
    'C18': dict(
        assumptions=['SPIKE scan proof (spike_*.P): get_min_dist is replaced by its contract (result = the opaque nearest-spike distance MD(tau), of which '
                     '0 <= MD(tau) <= |tau - e| for every spike e of the other train is revealed; the contract itself is proved in gmd_*.P, its precondition is an '
                     'obligation at every call); dist_at_t is replaced by its contract (value equation, proved in dist_at_t_*.P; precondition obliged at every call); '
                     'products / quotients of two symbolic reals are uninterpreted (MUL/DIV) with ground instances of valid real-arithmetic laws (pv/ufarith.py) - '
                     'an abstraction that can only lose proofs, not create them'],
        title='Every valid input yields a finite, well-formed result without error', level='other',
        groups=both(['plumb.degenerate', 'isi_py.P', 'isi_pyx.P'] + SPIKEP + ['spike_py.B', 'spike_pyx.B', 'sync_py.B', 'order_py.B', 'dir_py.B',
                     'isidist_pyx.P', 'spikedist_pyx.P', 'spikedist_ri_pyx.P', 'isidist_pyx.B', 'spikedist_pyx.B', 'isilen.B', 'thresh.B', 'nonempty.P']),
        technique='safety obligations (index bounds, asserts, finiteness flags, no exception) of all kernels + wrappers on formal terms over all emptiness patterns',
        explanation='kernel safety and well-formedness clauses incl. one-spike, edge and identical trains; public functions on every pattern of '
                    'empty trains: no exception, no zero-denominator ratio',
    ),
    'C20': dict(
        title='Merging and histogramming conserve every spike', level='other',
        groups=both(['merge.B', 'psth.B', 'poisson.B']),
        technique='bounded symbolic execution over assumed numpy contracts (concatenate, sort, linspace, histogram, cumsum, random.exponential)',
        explanation='merge_spike_trains = sorted multiset union on the first interval; psth = counts on equal bins (last bin closed), summing to the number of spikes; '
                    'generate_poisson_spikes for every outcome of the random draws (symbolic reals >= 0): result carries the requested edges (pair and scalar form), spikes sorted, in [T_start, T_end), '
                    'exactly the cumulative sums below T_end; bounded in the number of draws and refill iterations; rests on assumed library contracts',
        assumptions=['np.random.exponential(scale, n) returns n finite reals >= 0 (nothing else is assumed about the draws); termination of the refill loop of generate_poisson_spikes is not verified'],
    ),
}


# ---- modularity closure -------------------------------------------------------------------------------------------
# A group whose contract replaces a callee by the callee's CONTRACT (get_tau, get_min_dist, dist_at_t) says nothing about
# a change inside that callee: every property that runs such a group also runs the group that verifies the callee
# (three seeded changes in get_tau / Interpolate were first missed because a registry lacked it).
_USES_TAU = ('sync', 'single', 'order', 'dir')
_USES_SPIKE_CALLEES = ('spike',)


def _close(groups):
    out = list(groups)

    def add(g):
        if g not in out:
            out.append(g)
    for g in list(groups):
        head = g.split('.')[0]
        if g.startswith(('lemmas.', 'plumb.')):
            continue
        if any(t in head for t in _USES_TAU):
            add('get_tau_py.P')
            add('get_tau_pyx.P')
        if any(t in head for t in _USES_SPIKE_CALLEES):
            for x in KPY + KPYX:
                add(x)
            if 'spikedist' in head:
                add('gmd_dist_pyx.P')
                add('dist_at_t_dist_pyx.P')
    return out


# Every statement about the public measure functions is a statement about what they do AFTER input preparation: the
# contract of reconcile_spike_trains (sorted, duplicate free, every input spike inside the interval kept, nothing else)
# is part of each of them (two seeded tolerance-based de-duplications were first missed by properties without it).
# ... and so are the wrappers around the kernels: call forms, lists with a train occurring twice, near-identical trains
_WRAPPED = {'C13': ['merge.B', 'plumb.inplace'], 'C06': ['plumb.near'] + ['%s_add_%s.%s' % (k, c, t) for k in ('pwc', 'pwl', 'disc') for c in ('fb', 'cy') for t in ('P', 'B')],
            'C01': ['plumb.forms', 'plumb.near', 'plumb.repeated', 'plumb.inplace'], 'C02': ['plumb.forms', 'plumb.near', 'plumb.repeated', 'plumb.inplace'],
            'C03': ['plumb.forms', 'plumb.near', 'plumb.repeated', 'plumb.inplace'], 'C04': ['plumb.forms', 'plumb.near', 'plumb.repeated', 'plumb.same_window'],
            'C14': ['plumb.near', 'plumb.same_window'], 'C07': ['plumb.near', 'plumb.repeated'], 'C16': ['plumb.same_window']}
_PUBLIC_MEASURES = ('C01', 'C02', 'C03', 'C04', 'C05', 'C06', 'C07', 'C08', 'C12', 'C14', 'C15', 'C16', 'C17', 'C18')
# C18 (no exception, finite, well formed) also covers the averaging over sub-intervals done by the profile classes
_C18_EXTRA = ['pwc_integral_none.P', 'pwc_integral_one.P', 'pwc_integral.B', 'pwl_integral_none.P', 'pwl_integral_one.P', 'pwl_integral.B', 'disc_integral_none.P', 'disc_integral_one.P', 'disc_integral.B', 'pwc_avrg_none.P', 'pwc_avrg_one.P', 'pwc_avrg_list2.P', 'pwc_avrg.B', 'pwl_avrg_none.P', 'pwl_avrg_one.P', 'pwl_avrg_list2.P', 'pwl_avrg.B', 'disc_avrg_none.P', 'disc_avrg_one.P', 'disc_avrg_list2.P', 'disc_avrg.B', 'pwc_call.P', 'pwc_call.B', 'pwl_call.P', 'pwl_call.B']

for _k, _p in PROPS.items():
    for _tier in ('quick', 'thorough'):
        _g = _close(_p['groups'][_tier])
        if _k in _PUBLIC_MEASURES and 'reconcile.B' not in _g:
            _g.append('reconcile.B')
        if _k == 'C18':
            _g += [x for x in _C18_EXTRA if x not in _g]
        _g += [x for x in _WRAPPED.get(_k, []) if x not in _g]
        _p['groups'][_tier] = _g
