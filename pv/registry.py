"""property id -> obligation groups per tier, claimed level, notes."""

PROPS = {
    'C01': dict(
        title='ISI-profile equals the ISI-distance definition',
        level='proof',
        groups=dict(quick=['isi_py.P', 'isi_pyx.P'], thorough=['isi_py.P', 'isi_pyx.P', 'isi_py.B']),
        explanation='inductive proof (loop invariant with ghost cover indices) of the ISI kernel against the C01 definition, '
                    'Python fallback and extracted Cython text',
    ),
    'C02': dict(
        title='SPIKE-profile equals the SPIKE-distance definition',
        level='other',
        groups=dict(quick=['gmd_py.P', 'gmd_prof_pyx.P', 'dist_at_t_py.P', 'dist_at_t_prof_pyx.P', 'spike_py.B', 'spike_pyx.B'],
                    thorough=['gmd_py.P', 'gmd_prof_pyx.P', 'dist_at_t_py.P', 'dist_at_t_prof_pyx.P', 'spike_py.B', 'spike_pyx.B']),
        explanation='helpers get_min_dist / dist_at_t proved inductively (P); the SPIKE scan itself is checked in bounded mode against '
                    'the C02 definition with the helpers replaced by their contracts',
    ),
    'C16': dict(
        title='max_tau is an upper bound on the coincidence window',
        level='other',
        groups=dict(quick=['get_tau_py.P', 'get_tau_pyx.P', 'sync_py.B', 'order_py.B', 'dir_py.B', 'single_py.B'],
                    thorough=['get_tau_py.P', 'get_tau_pyx.P', 'sync_py.B', 'order_py.B', 'dir_py.B', 'single_py.B']),
        explanation='window routine proved (P, loop-free) to return the C03 window and never more than half the limit it is given; '
                    'scan kernels bounded',
    ),
}
