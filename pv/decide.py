"""Verdict logic of one property check (DESIGN 5): run the registered obligation groups, turn failed
obligations into replayed counterexamples, apply known findings, write evidence, choose the exit code."""
import json
import os
import sys
import time
import z3
from . import run as runmod, solve, confirm, source
from .sym import *  # noqa
from .cli import HERE, load_known, write_json

ASSUMPTIONS = [
    "floating point numbers are modelled as mathematical reals (rounding, overflow, signed zeros not modelled); "
    "division by zero is tracked with finiteness flags",
    "numpy operations used by the code (empty/zeros/ones/empty_like/zeros_like/array copy/slice read/slice assign/"
    "element-wise arithmetic/searchsorted/sum/...) are assumed contracts in the encoding, cross-checked against the "
    "installed numpy by the engine-vs-CPython replay of counterexamples and the differential self-test",
    "Python int is unbounded; C int in the .pyx sources assumed not to overflow",
    "the .pyx sources are verified as mechanically extracted Python text (pv/extract.py; drop log in coverage); "
    "C-level semantics (memoryviews, nogil, cdivision) are not modelled beyond the finiteness flags and index-bounds obligations",
    "the VC generator (pv/engine.py) and the SMT solvers (z3 5.1, z3 4.8.12, cvc5 1.0.3) are trusted",
    "termination is not verified",
]


def carve_fn(src):
    from . import pinned
    ns = dict(And=band, Or=bor, Not=bnot, Implies=implies, z3=z3, cmp=cmp, arith=arith, split=split, len=len, pinned=pinned)
    return eval(src, ns)


def replay_path(pid, name):
    safe = ''.join(ch if ch.isalnum() or ch in '._-' else '_' for ch in name)[:120]
    return os.path.join(HERE, 'replays', pid, safe + '.json')


def contract_inputs(contract, size):
    st, pre, ctx = contract.setup('B', size)
    return ctx


def try_confirm(group, size, model):
    """model of a bounded obligation -> confirmation dict"""
    c = getattr(group, 'finder_contract', None) or group.contract
    ctx = contract_inputs(c, size)
    values = confirm.inputs_from_model(ctx.inputs, model)
    r = confirm.confirm(c, size, values, compiled_standin=c.rel.endswith('.pyx'))
    return r


def regrid(smt, ctx, bits=6, timeout_ms=20000):
    """ask for a model whose real inputs lie on the dyadic grid 2^-bits (so that floats reproduce ties exactly)"""
    s = z3.Solver()
    s.set('timeout', timeout_ms)
    s.from_string(smt)
    scale = 2 ** bits
    n = 0
    for p, d in ctx.inputs.items():
        names = []
        if d[0] == 'array' and isinstance(d[2], int):
            names = ["%s_%d" % (d[1], k) for k in range(d[2])]
        elif d[0] == 'real':
            names = [d[1]]
        for nm in names:
            iv = z3.Int('grid!%d' % n)
            n += 1
            s.add(z3.Real(nm) * scale == z3.ToReal(iv))
            s.add(iv >= -64 * scale, iv <= 64 * scale)
    if s.check() == z3.sat:
        return solve._model_dict(s.model())
    return None


def other_model(smt, ctx, previous, timeout_ms=15000):
    """a model that differs from all previous ones in at least one real input by a clear margin"""
    s = z3.Solver()
    s.set('timeout', timeout_ms)
    s.from_string(smt)
    names = []
    for p, d in ctx.inputs.items():
        if d[0] == 'array' and isinstance(d[2], int):
            names += ["%s_%d" % (d[1], k) for k in range(d[2])]
        elif d[0] == 'real':
            names.append(d[1])
    for m in previous:
        diffs = []
        for nm in names:
            if nm in m:
                try:
                    v = confirm.parse_num(m[nm])
                except Exception:
                    continue
                x = z3.Real(nm)
                val = z3.RealVal(str(v))
                diffs.append(z3.Or(x - val > z3.RealVal('1/1000') * z3.If(val >= 0, val, -val) + z3.RealVal('1/1000000000000'),
                                   val - x > z3.RealVal('1/1000') * z3.If(val >= 0, val, -val) + z3.RealVal('1/1000000000000')))
        if diffs:
            s.add(z3.Or(*diffs))
    if s.check() == z3.sat:
        return solve._model_dict(s.model())
    return None


def find_counterexample(group, failure, finder_tasks, log):
    """-> (verdict, confirmation) ; verdict in violation / mismatch / none"""
    from .groups.base import GROUPS, gen_worker
    cands = []
    if failure.get('model') and failure.get('task') and failure['task'][0] == 'B':
        cands.append((failure['task'][1], failure['model'], failure.get('smt')))
    for (size, model, smt) in cands:
        ctx = contract_inputs(getattr(group, 'finder_contract', None) or group.contract, size)
        grid = None
        if smt:
            try:
                grid = regrid(smt, ctx)
            except Exception:
                grid = None
        tried = ([grid] if grid else []) + [model]
        mismatch = None
        for attempt in range(6):
            if attempt < len(tried):
                m = tried[attempt]
            else:
                # the model may sit exactly on a boundary where float and real arithmetic part (x <= tol with x == tol):
                # ask for further, different models before giving up
                m = other_model(smt, ctx, tried) if smt else None
                if m is None:
                    break
                tried.append(m)
            if hasattr(group, 'relations'):
                from .relational import confirm_relational
                rname = failure['subgoals'][0].split('.')[0]
                r = confirm_relational(group, size, rname, m)
            else:
                r = try_confirm(group, size, m)
            if r['verdict'] == 'violation':
                r['size'] = list(size)
                return 'violation', r
            if r['verdict'] == 'mismatch' and mismatch is None:
                r['size'] = list(size)
                mismatch = r
        if mismatch is not None:
            return 'mismatch', mismatch
    return 'none', None


def run_finder(group, known, log):
    """bounded search for a failing input of a P group: same contract, B mode, growing sizes"""
    from .groups.base import merge_by_hyp
    from . import harness
    c = getattr(group, 'finder_contract', None) or group.contract
    from .groups.base import compile_known
    c.known = tuple(compile_known(known))
    pool = solve.pool()
    stats_out = getattr(group, '_finder_stats', None)
    for size in getattr(group, 'finder_sizes', ()):
        try:
            obls, stats = harness.function_obligations(c, 'B', size)
        except Exception as ex:
            log("   finder %s%s: %s" % (group.name, size, ex))
            if stats_out is not None:
                stats_out['errors'] += 1
            continue
        jobs = merge_by_hyp(obls, "%s.finder%s" % (group.name, str(tuple(size)).replace(' ', '')), 20000, cache=False)
        res = list(pool.imap_unordered(solve.solve_job, jobs, chunksize=2))
        byname = {j['name']: j for j in jobs}
        if stats_out is not None:
            stats_out['obligations'] += sum(len(j['subgoals']) for j in jobs)
            stats_out['discharged'] += sum(len(byname[r['name']]['subgoals']) for r in res if r['result'] == 'unsat')
            stats_out['unknown'] += sum(1 for r in res if r['result'] == 'unknown')
        for r in res:
            if r['result'] == 'sat' and r.get('model'):
                j = byname[r['name']]
                subs = [s for s, fl in zip(j['subgoals'], j['flagnames']) if r['model'].get(fl) == 'False'] or j['subgoals']
                f = dict(job=j['name'], task=('B', size), model=r['model'], smt=j['smt'], subgoals=subs, result='sat')
                v, conf = find_counterexample(group, f, None, log)
                if v in ('violation', 'mismatch'):
                    conf['bounded_obligations'] = subs
                    return v, conf
    return 'none', None


def check_property(pid, tier, cache=True, only_groups=None):
    t0 = time.time()
    from .registry import PROPS
    from .groups.base import GROUPS
    from . import groups  # noqa  (registers all groups)
    import pv.groups.all  # noqa
    P = PROPS[pid]
    gnames = only_groups or P['groups'][tier]
    lines = []

    def log(s):
        print(s, flush=True)

    # a recorded finding applies to every check that runs the obligation group it lives in
    known_all = [k for k in load_known() if k.get('status') == 'known' and
                 (set([k.get('group')] + list(k.get('groups', []))) & set(gnames))]
    known_by_group = {}
    for k in known_all:
        if k.get('carve_out') and k.get('group'):
            for gn in ([k['group']] + list(k.get('also_groups', []))):
                known_by_group.setdefault(gn, []).append(('carve', k['carve_out'], k.get('pinned')))
        if k.get('native_pinned'):
            for gn in k.get('groups', []):
                known_by_group.setdefault(gn, []).append(('native_pinned', k['native_pinned']))
        elif k.get('native_match'):
            for gn in k.get('groups', []):
                known_by_group.setdefault(gn, []).append(('native', k['native_match']))
    log("== %s (%s tier): %d obligation groups: %s" % (pid, tier, len(gnames), ', '.join(gnames)))
    results, timing = runmod.run_groups(gnames, tier, known_by_group, log, cache=cache)
    violations, undecided, crashes, downgraded, mismatches = [], [], [], [], []
    for gn in gnames:
        g = results[gn]
        grp = GROUPS[gn]
        log("   %-34s %s  obligations=%d discharged=%d jobs=%d solver=%.1fs cached=%d %s" % (
            gn, grp.strength + ('(' + grp.bound_text + ')' if grp.bound_text else ''), g['obligations'], g['discharged'],
            g['jobs'], g['solver_time'], g['cached'], ('FAILED=%d' % len(g['failed'])) if g['failed'] else ''))
        for e in g['errors']:
            log("      ! %s" % e['error'].strip().split('\n')[-1])
        if g['crash']:
            crashes.append((gn, g['errors']))
            continue
        if g['undecided']:
            # the sidecar contract could not be bound to / executed on the current source (renamed local, construct
            # outside the modelled subset of the INDUCTIVE mode). Pre- and postcondition do not mention locals: fall back
            # to the bounded stand-in of the same contract; the group then counts as bounded, not as proved.
            sib = getattr(grp, 'standin', None)
            if grp.strength == 'P' and sib and sib in gnames and all('Unbound' in e['error'] or 'Unsupported' in e['error'] for e in g['errors']):
                # the bounded stand-in of the same function is a group of this very check (its own failures are reported there)
                log("      inductive contract of %s not applicable to the current source (%s); bounded stand-in: group %s of this check"
                    % (gn, g['errors'][0]['error'].strip().split('\n')[-1][:160], sib))
                g['downgraded'] = 'P contract not applicable (%s); bounded stand-in: group %s (%s)' % (
                    g['errors'][0]['error'].strip().split('\n')[-1][:200], sib, GROUPS[sib].bound_text)
                downgraded.append(gn)
                continue
            if grp.strength == 'P' and hasattr(grp, 'contract') and getattr(grp, 'finder_sizes', None):
                grp._finder_stats = dict(obligations=0, discharged=0, unknown=0, errors=0)
                verdict, conf = run_finder(grp, known_by_group.get(gn, ()), log)
                fs = grp._finder_stats
                grp._finder_stats = None
                if verdict == 'violation':
                    path = replay_path(pid, gn + '.bounded-fallback')
                    write_json(path, dict(property=pid, group=gn, kind='kernel', obligation=conf.get('bounded_obligations'),
                                          size=conf.get('size'), values=conf['values'], failed_clauses=conf['failed'],
                                          real=conf['real'], exact=conf['exact'], note='inductive contract not applicable: ' + g['errors'][0]['error'][-300:]))
                    violations.append((gn, (conf.get('bounded_obligations') or ['?'])[0], path,
                                       "input %s fails %s" % (json.dumps(conf['values']), conf['failed'][:3]), True))
                    continue
                if verdict == 'none' and fs['errors'] == 0 and fs['unknown'] == 0 and fs['obligations'] > 0 and fs['obligations'] == fs['discharged']:
                    log("      inductive contract of %s not applicable to the current source (%s); bounded stand-in %s: %d obligations discharged"
                        % (gn, g['errors'][0]['error'].strip().split('\n')[-1][:160], grp.finder_sizes[-1], fs['discharged']))
                    g['obligations'] += fs['obligations']
                    g['discharged'] += fs['discharged']
                    g['downgraded'] = 'P contract not applicable (%s); bounded stand-in up to %s' % (g['errors'][0]['error'].strip().split('\n')[-1][:200], grp.finder_sizes[-1])
                    downgraded.append(gn)
                    continue
            undecided.append((gn, '; '.join(e['error'] for e in g['errors'])))
            continue
        if g['obligations'] == 0:
            undecided.append((gn, 'vacuity guard: the group generated zero obligations'))
            continue
        vac = [cls for cls, (tot, live) in g.get('canaries', {}).items() if live == 0]
        if vac:
            undecided.append((gn, 'vacuity guard: `False` is provable on every path of %s (contradictory contract?)' % vac))
            continue
        if not g['failed']:
            continue
        # ---- failed obligations -> counterexample
        done = False
        native = [f for f in g['failed'] if f.get('witness')]
        for f in native:
            path = replay_path(pid, f['job'])
            write_json(path, dict(property=pid, group=gn, obligation=f['subgoals'], kind='native', witness=f['witness'],
                                  solver_output=f.get('reason')))
            violations.append((gn, f['subgoals'][0], path, f['witness'].get('summary', ''), True))
            done = True
        if done:
            continue
        if grp.strength in ('P', 'B') and hasattr(grp, 'contract'):
            verdict, conf = 'none', None
            for f in g['failed']:
                if f['result'] == 'sat' and f.get('task') and f['task'][0] == 'B':
                    verdict, conf = find_counterexample(grp, f, None, log)
                    if verdict != 'none':
                        conf['obligation'] = f['subgoals']
                        break
            if verdict == 'none' and grp.strength == 'P':
                # 1. bounded search for a failing input (fast, definite models)
                verdict, conf = run_finder(grp, known_by_group.get(gn, ()), log)
                if conf is not None:
                    conf['obligation'] = g['failed'][0]['subgoals']
                if verdict == 'none':
                    # 2. no input found: retry the undischarged obligations (in parallel, longer budget, portfolio)
                    #    before anything is reported - a loaded machine must not flip a verdict
                    jobs = [dict(name=f['job'], smt=f['smt'], timeout_ms=90000, portfolio=True, cache=False) for f in g['failed'][:64]]
                    res = {r['name']: r for r in solve.pool().imap_unordered(solve.solve_job, jobs)}
                    still = []
                    for f in g['failed']:
                        r = res.get(f['job'])
                        if r is not None and r['result'] == 'unsat':
                            g['discharged'] += len(f['subgoals'])
                        else:
                            if r is not None:
                                f['result'], f['reason'] = r['result'], r.get('reason')
                            still.append(f)
                    g['failed'] = still
                    if not still:
                        continue
            if verdict == 'none' and grp.strength == 'B' and not any(f['result'] == 'sat' for f in g['failed']):
                # bounded goals are quantifier-free: only a model (sat) refutes one. `unknown` within budget = undecided
                undecided.append((gn, 'bounded goals left undecided by the solvers within budget: %s' % [f['subgoals'][0] for f in g['failed']][:5]))
                continue
            first = g['failed'][0]
            path = replay_path(pid, first['job'])
            if verdict == 'mismatch':
                write_json(path, dict(property=pid, group=gn, kind='mismatch', confirmation=conf))
                mismatches.append((gn, 'encoding disagrees with CPython on a replayed input: %s' % path))
                continue
            if verdict == 'violation':
                write_json(path, dict(property=pid, group=gn, kind='relational' if conf.get('relation') else 'kernel', obligation=conf.get('obligation'),
                                      size=conf.get('size'), values=conf['values'], failed_clauses=conf['failed'],
                                      relation=conf.get('relation'), aux=conf.get('aux'), calls=conf.get('calls'),
                                      real=conf['real'], exact=conf['exact'],
                                      solver_output=dict(result=first['result'], backend=first.get('backend'))))
                violations.append((gn, (conf.get('obligation') or ['?'])[0], path,
                                   "input %s fails %s" % (json.dumps(conf['values']), conf['failed'][:3]), True))
                continue
            # no input found
            write_json(path, dict(property=pid, group=gn, kind='no-input', obligation=first['subgoals'],
                                  solver_output=dict(result=first['result'], reason=first.get('reason'),
                                                     backend=first.get('backend'), model=first.get('model')),
                                  note="obligation is discharged on the pinned tree and is no longer; the bounded "
                                       "counterexample search up to %s found no failing input" % (getattr(grp, 'finder_sizes', None),),
                                  all_failed=[f['subgoals'] for f in g['failed']][:40]))
            violations.append((gn, first['subgoals'][0], path, 'solver: %s' % first['result'], False))
        else:
            undecided.append((gn, 'lemma group has undischarged obligations: %s' % [f['subgoals'][0] for f in g['failed']][:5]))

    # ---- known findings: replay each stored witness on the current tree
    known_lines = []
    for k in known_all:
        w = k.get('witness')
        ok = None
        if w and w.get('kind', 'kernel') == 'kernel':
            grp = GROUPS[k['group']]
            c = grp.contract
            c.known = ()
            r = confirm.confirm(c, tuple(w['size']), w['values'], compiled_standin=c.rel.endswith('.pyx'))
            ok = r['verdict'] == 'violation'
        elif w and w.get('kind') == 'native':
            from .native import driver
            ok = driver.replay_witness(w)
        if ok:
            known_lines.append("KNOWN-FINDING: property=%s %s" % (pid, k['what']))
        else:
            log("   note: listed finding no longer reproduces on this tree (%s)" % k.get('what'))
    for ln in known_lines:
        log(ln)

    # a caller verified with a callee BY CONTRACT replays differently from the real code when the callee itself no longer
    # meets that contract: if the callee's own contract group reports a violation in this check, the disagreement is
    # explained by it (and reported there), it is not a defect of the encoding
    CALLEE_GROUPS = ('get_tau_py.P', 'get_tau_pyx.P', 'gmd_py.P', 'gmd_prof_pyx.P', 'gmd_dist_pyx.P', 'dist_at_t_py.P',
                     'dist_at_t_prof_pyx.P', 'dist_at_t_dist_pyx.P')
    callee_violated = [v[0] for v in violations if v[0] in CALLEE_GROUPS]
    for (gn, what) in mismatches:
        if callee_violated:
            log("   note: replay of %s disagrees with the real code because a callee it uses by contract violates that contract (%s)" % (gn, ', '.join(callee_violated)))
        else:
            crashes.append((gn, what))

    wall = time.time() - t0
    ev = build_evidence(pid, tier, P, gnames, results, timing, wall, violations, undecided, known_lines, downgraded)
    write_json(os.path.join(HERE, 'evidence', pid + '.json'), ev)
    if crashes:
        for c in crashes:
            log("CHECKER-CRASH in %s: %s" % (c[0], str(c[1])[-1500:]))
        return 3
    if violations:
        for (gn, ob, path, what, has_input) in violations:
            log("   violated obligation %s :: %s  (%s)" % (gn, ob, what))
            rel = os.path.relpath(path, HERE)
            log("VIOLATION property=%s replay=%s%s" % (pid, rel, '' if has_input else ' no-failing-input-found'))
        return 1
    if undecided:
        for u in undecided:
            log("UNDECIDED %s: %s" % u)
        return 2
    log("== %s held: %d obligations discharged in %.1fs" % (pid, ev['coverage']['discharged'], wall))
    return 0


def build_evidence(pid, tier, P, gnames, results, timing, wall, violations, undecided, known_lines, downgraded=()):
    from .groups.base import GROUPS
    tot_o = sum(results[g]['obligations'] for g in gnames)
    tot_d = sum(results[g]['discharged'] for g in gnames)
    groups = []
    samples = []
    bounded = []
    backends = {}
    extraction = {}
    for gn in gnames:
        grp, r = GROUPS[gn], results[gn]
        d = grp.describe()
        d.update(obligations=r['obligations'], discharged=r['discharged'], solver_jobs=r['jobs'],
                 solver_cpu_s=r['solver_time'], backends=r['backends'], cache_hits=r['cached'],
                 tasks=[dict(task=t['task'], **t['stats']) for t in r['tasks']][:40],
                 vacuity_canaries={k: dict(paths=v[0], reachable=v[1]) for k, v in r.get('canaries', {}).items()},
                 errors=r['errors'])
        groups.append(d)
        samples.extend(r['samples'][:1])
        if grp.strength == 'B':
            bounded.append("%s: %s" % (gn, grp.bound_text))
        for b, n in r['backends'].items():
            backends[b] = backends.get(b, 0) + n
        for rel, fn, cls in grp.func_list():
            if rel.endswith('.pyx'):
                try:
                    extraction[rel] = source.module(rel).extraction_log
                except Exception:
                    pass
    all_pl = all(GROUPS[g].strength in ('P', 'L') for g in gnames) and not downgraded
    level = 'proof' if (all_pl and P.get('level') == 'proof') else 'other'
    expl = P.get('explanation', '')
    cov = dict(obligations=tot_o, discharged=tot_d,
               checker_cmd="./check %s --tier %s" % (pid, tier),
               trusted_base=["pv/engine.py (VC generator)", "z3 5.1.0 / z3 4.8.12 / cvc5 1.0.3", "pv/extract.py (.pyx -> Python text)",
                             "numpy model in pv/engine.py"],
               explanation=expl + (" | bounded (not counted as proved): " + '; '.join(bounded) if bounded else ''),
               strength_by_group={g: GROUPS[g].strength for g in gnames},
               bounded_parts=bounded, groups=groups, samples=samples or [dict(note='no discharged sample recorded')],
               backends=backends, timing=timing, extraction_drop_log=extraction,
               known_findings_printed=known_lines, undecided=[list(u) for u in undecided],
               downgraded_to_bounded={g: results[g].get('downgraded') for g in downgraded},
               exhaustive=False)
    return dict(property_id=pid, tier=tier, seed=int(os.environ.get('VERIF_SEED', '0') or 0), level=level, coverage=cov,
                assumptions=ASSUMPTIONS + list(P.get('assumptions', [])), wall_s=round(wall, 2), violations=len(violations))


def replay_file(path):
    from .groups.base import GROUPS
    import pv.groups.all  # noqa
    if not os.path.isabs(path):
        path = os.path.join(HERE, path)
    d = json.load(open(path))
    if d.get('kind') == 'kernel':
        grp = GROUPS[d['group']]
        c = grp.contract
        c.known = ()
        r = confirm.confirm(c, tuple(d['size']), d['values'], compiled_standin=c.rel.endswith('.pyx'))
        print(json.dumps(dict(verdict=r['verdict'], failed=r.get('failed'), real=r.get('real'), exact=r.get('exact')), default=str)[:3000])
        if r['verdict'] == 'violation':
            print("VIOLATION property=%s replay=%s" % (d['property'], os.path.relpath(path, HERE)))
            return 1
        return 0
    if d.get('kind') == 'relational':
        from .relational import confirm_relational
        grp = GROUPS[d['group']]
        model = {}
        ctx = grp.contract.setup('B', tuple(d['size']))[2]
        for p_, dsc in ctx.inputs.items():
            v = d['values'].get(p_)
            if dsc[0] == 'array':
                for k_, x in enumerate(v):
                    model["%s_%d" % (dsc[1], k_)] = repr(__import__('fractions').Fraction(x))
            elif dsc[0] == 'real':
                model[dsc[1]] = repr(__import__('fractions').Fraction(v))
        for k_, x in (d.get('aux') or {}).items():
            model[k_] = repr(__import__('fractions').Fraction(x))
        model = {k_: v.replace('Fraction(', '').replace(')', '').replace(', ', '/') for k_, v in model.items()}
        r = confirm_relational(grp, tuple(d['size']), d['relation'], model)
        print(json.dumps(dict(verdict=r['verdict'], failed=r.get('failed'), real=r.get('real')), default=str)[:3000])
        if r['verdict'] == 'violation':
            print("VIOLATION property=%s replay=%s" % (d['property'], os.path.relpath(path, HERE)))
            return 1
        return 0
    if d.get('kind') == 'native':
        from .native import driver
        ok = driver.replay_witness(d['witness'], verbose=True)
        if ok:
            print("VIOLATION property=%s replay=%s" % (d['property'], os.path.relpath(path, HERE)))
            return 1
        return 0
    print("replay file carries no input (kind=%s): obligation %s, solver output %s" % (d.get('kind'), d.get('obligation'), d.get('solver_output')))
    return 1
