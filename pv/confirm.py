"""Counterexample confirmation (DESIGN 5, step 3).

A candidate input (from a solver model) is
  1. executed by /venv/bin/python on the REAL function of /repo's working tree (pv.runner), and
  2. executed exactly (rational arithmetic) by the same interpreter that produced the VCs, with the
     contract evaluated on the exact result.
A violation is confirmed when the exact run falsifies an obligation AND the real run agrees with the
exact run (same shapes, values within 1e-9) - or the real run raises where the exact run found a failed
safety obligation.  If the two runs disagree the encoding is wrong: checker defect, never a violation."""
import json
import os
import re
import subprocess
from fractions import Fraction
import z3
from .sym import *  # noqa
from . import harness
from .engine import Unsupported, Unbound

HERE = os.path.dirname(os.path.dirname(os.path.abspath(__file__)))
VENV_PY = os.environ.get('PYSPIKE_VENV_PY', '/venv/bin/python')


def parse_num(s):
    s = s.strip()
    if s.endswith('?'):
        s = s[:-1]
    m = re.match(r'^\(-\s*(.*)\)$', s)
    if m:
        return -parse_num(m.group(1))
    m = re.match(r'^\(/\s*(\S+)\s+(\S+)\)$', s)
    if m:
        return parse_num(m.group(1)) / parse_num(m.group(2))
    return Fraction(s)


def snap(fr, bits=40):
    """nearest float of a rational; used for the inputs handed to the real code"""
    return float(fr)


def inputs_from_model(ctx_inputs, model, size_hint=None):
    """ctx_inputs: {param: ('array', base, n) | ('real', name) | ('int', name) | ('const', value)}"""
    vals = {}
    for p, d in ctx_inputs.items():
        if d[0] == 'array':
            n = d[2]
            if not isinstance(n, int):
                n = int(model.get(str(n), 0))
            vals[p] = [float(parse_num(model.get("%s_%d" % (d[1], k), '0'))) for k in range(n)]
        elif d[0] == 'real':
            vals[p] = float(parse_num(model.get(d[1], '0')))
        elif d[0] == 'int':
            vals[p] = int(parse_num(model.get(d[1], '0')))
        elif d[0] == 'const':
            vals[p] = d[1]
        elif d[0] == 'draws':
            # outcomes of np.random.exponential, call k element i = model constant draw<k>_<i>
            got = {}
            for nm, v in model.items():
                m = re.match(r'^draw(\d+)_(\d+)$', nm)
                if m:
                    got.setdefault(int(m.group(1)), {})[int(m.group(2))] = float(parse_num(v))
            vals[p] = [[got.get(k, {}).get(i, 0.0) for i in range(max(got.get(k, {0: 0})) + 1)] for k in range(max(got) + 1)] if got else []
    return vals


def run_real(calls, repo=None, timeout=120):
    env = dict(os.environ)
    if repo:
        env['PYSPIKE_REPO'] = repo
    p = subprocess.run([VENV_PY, os.path.join(HERE, 'pv', 'runner.py')], input=json.dumps({'calls': calls}),
                       stdout=subprocess.PIPE, stderr=subprocess.PIPE, text=True, timeout=timeout, env=env)
    if p.returncode != 0:
        raise RuntimeError("runner failed: %s" % p.stderr[-2000:])
    return json.loads(p.stdout)


def enc_arg(v):
    if isinstance(v, list):
        return {'__array__': v}
    return v


def build_args(ctx, values):
    """runner arguments from a contract context. ctx.argspec (optional) describes objects / nested arguments:
       ('val', name) | ('obj', cls, {field: value-name}) | ('objlist', cls, [{field: name | ('const', v)}]) | ('tuple', [names]) |
       ('listoflists', [names]) | ('list', name) | ('const', value)"""
    spec = getattr(ctx, 'argspec', None)
    if spec is None:
        return [enc_arg(values[a]) for a in ctx.argorder]

    def field(v):
        if isinstance(v, tuple) and v[0] == 'const':
            return v[1]
        return enc_arg(values[v])
    out = []
    for d in spec:
        if d[0] == 'val':
            out.append(enc_arg(values[d[1]]))
        elif d[0] == 'obj':
            out.append({'__obj__': d[1], 'fields': {k: field(n) for k, n in d[2].items()}})
        elif d[0] == 'objlist':
            out.append({'__list__': [{'__obj__': d[1], 'fields': {k: field(n) for k, n in f.items()}} for f in d[2]]})
        elif d[0] == 'tuple':
            out.append({'__tuple__': [values[n] for n in d[1]]})
        elif d[0] == 'tuplelist':
            out.append({'__list__': [{'__tuple__': [values[n] for n in t]} for t in d[1]]})
        elif d[0] == 'listoflists':
            out.append({'__list__': [{'__list__': list(values[n])} for n in d[1]]})
        elif d[0] == 'list':
            out.append({'__list__': list(values[d[1]])})
        elif d[0] == 'reallist':
            out.append({'__list__': [values[n] for n in d[1]]})
        elif d[0] == 'const':
            out.append(d[1])
    return out


def truth(f):
    if isinstance(f, bool):
        return f
    g = z3.simplify(f)
    if z3.is_true(g):
        return True
    if z3.is_false(g):
        return False
    return None


def split_hyps(hyps):
    """-> (all decided hypotheses true?, [hypotheses that still mention symbols])
    With concrete inputs the only symbols left are the ones an assumed library contract introduced (np.sqrt: r >= 0 and
    r*r == x); their defining facts are not decided by simplification but by a solver query."""
    sym = []
    for h in hyps:
        t = truth(h)
        if t is False:
            return False, []
        if t is None:
            sym.append(h)
    return True, sym


def decide(sym_hyps, goal):
    """truth of a goal that mentions assumed-contract symbols: valid under their defining facts?"""
    t = truth(goal)
    if t is not None or not sym_hyps:
        return t
    s = z3.Solver()
    s.set('timeout', 20000)
    for h in sym_hyps:
        s.add(h)
    s.add(z3.Not(goal))
    r = s.check()
    return True if r == z3.unsat else (False if r == z3.sat else None)


def model_of(sym_hyps):
    if not sym_hyps:
        return None
    s = z3.Solver()
    s.set('timeout', 20000)
    for h in sym_hyps:
        s.add(h)
    return s.model() if s.check() == z3.sat else False


def exact_value(st, v, model=None):
    """exact engine value -> nested python structure of Fractions / 'nan'"""
    if isinstance(v, tuple):
        return [exact_value(st, x, model) for x in v]
    if isinstance(v, list):
        return [exact_value(st, x, model) for x in v]
    if isinstance(v, (ArrV, LazyArr)):
        return [exact_value(st, st.elem(v, k), model) for k in range(v.n)]
    if type(v).__name__ == 'Arr2':
        return [exact_value(st, r, model) for r in v.rows]
    if isinstance(v, NF):
        t = truth(v.fin) if model is None else truth(model.eval(v.fin, model_completion=True) if is_z3(v.fin) else v.fin)
        if t is True:
            return exact_value(st, v.term, model)
        return 'nan'
    if is_z3(v):
        g = z3.simplify(v)
        if model is not None and not (z3.is_rational_value(g) or z3.is_int_value(g)):
            g = model.eval(v, model_completion=True)
            if z3.is_algebraic_value(g):
                g = g.approx(30)
        if z3.is_rational_value(g):
            return g.as_fraction()
        if z3.is_int_value(g):
            return Fraction(g.as_long())
        return 'sym'
    if isinstance(v, bool):
        return v
    if isinstance(v, (int, Fraction)):
        return Fraction(v)
    if v is None:
        return None
    if isinstance(v, Rec):
        return {k: exact_value(st, x, model) for k, x in st.heap[v.id].items() if not k.startswith('__')}
    return repr(v)


def real_value(v):
    if isinstance(v, dict):
        if '__array__' in v:
            return [real_value(x) for x in v['__array__']]
        if '__tuple__' in v:
            return [real_value(x) for x in v['__tuple__']]
        if '__list__' in v:
            return [real_value(x) for x in v['__list__']]
        if '__float__' in v:
            return 'nan'
        if '__obj__' in v:
            return {k: real_value(x) for k, x in v['fields'].items()}
    return v


def agree(ex, re_, tol=1e-9):
    if isinstance(ex, list):
        return isinstance(re_, list) and len(ex) == len(re_) and all(agree(a, b, tol) for a, b in zip(ex, re_))
    if isinstance(ex, dict):
        return isinstance(re_, dict) and all(agree(ex[k], re_.get(k), tol) for k in ex)
    if ex == 'nan':
        return re_ == 'nan'
    if ex is None or isinstance(ex, (bool, str)):
        return ex == re_
    if isinstance(ex, Fraction):
        if not isinstance(re_, (int, float)) or isinstance(re_, bool) and False:
            return False
        return abs(float(ex) - float(re_)) <= tol * max(1.0, abs(float(ex)))
    return ex == re_


def jsonable(v):
    if isinstance(v, Fraction):
        return float(v)
    if isinstance(v, list):
        return [jsonable(x) for x in v]
    if isinstance(v, dict):
        return {k: jsonable(x) for k, x in v.items()}
    return v


def confirm(contract, size, values, repo=None, compiled_standin=False):
    """-> dict(verdict = 'violation' | 'holds' | 'mismatch' | 'precondition' | 'undecided', ...)"""
    argorder = None
    out = dict(values=values)
    try:
        obls, stats = harness.function_obligations(contract, 'B', size, values=values, want_paths=True)
    except (Unsupported, Unbound) as ex:
        return dict(verdict='undecided', why=str(ex), values=values)
    if stats.get('vacuous'):
        return dict(verdict='precondition', values=values)
    ctx = stats['_ctx']
    paths = stats['_paths']
    failed = []
    undec = []
    for o in obls:
        # hypotheses are concrete: a false hypothesis means this obligation is not on the executed path
        hyp_ok, symh = split_hyps(o.hyp)
        if not hyp_ok or (symh and model_of(symh) is False):
            continue
        t = decide(symh, o.goal) if is_z3(o.goal) else truth(o.goal)
        if t is False:
            failed.append(o.name)
        elif t is None:
            undec.append(o.name)
    exact_out = None
    on_path = None
    for (st2, pc2, o2) in paths:
        ok_, symh = split_hyps(pc2.hyp())
        mdl = model_of(symh) if ok_ else False
        if ok_ and mdl is not False:
            on_path = (st2, mdl)
            if o2 is None:
                exact_out = ('ret', None)
            elif o2[0] == 'ret':
                exact_out = ('ret', exact_value(st2, o2[1], mdl))
            else:
                exact_out = (o2[0], o2[1])
            break
    args = build_args(ctx, values)
    check_self = getattr(ctx, 'check_self', False)
    real = run_real([dict(rel=contract.rel, func=contract.func, cls=contract.cls, args=args, draws=values.get('__draws__'),
                          compiled_standin=compiled_standin or getattr(contract, 'config', None) == 'compiled',
                          return_args=check_self)], repo=repo)[0]
    if check_self and exact_out is not None and exact_out[0] == 'ret':
        # methods that update the receiving object: compare (return value, object after the call)
        if on_path is not None:
            exact_out = ('ret', [exact_out[1], exact_value(on_path[0], on_path[0].vars['self'], on_path[1])])
        if real['ok']:
            real = dict(real)
            real['result'] = {'__list__': [real['result'], real['args_after'][0]]}
    out.update(failed=failed, undecided_clauses=undec, real=real,
               exact=jsonable(exact_out[1]) if exact_out and exact_out[0] == 'ret' else (list(exact_out) if exact_out else None))
    if real['ok']:
        if exact_out is None or exact_out[0] != 'ret':
            consistent = False if exact_out is not None else None
        else:
            consistent = agree(exact_out[1], real_value(real['result']))
    else:
        # the real code raised: consistent if the exact run ended in a failed safety obligation / raise
        consistent = (exact_out is None and bool(failed)) or (exact_out is not None and exact_out[0] == 'raise') or \
            any(f.startswith(('bounds', 'slice', 'assert', 'no-exception', 'alloc')) for f in failed)
    out['consistent'] = consistent
    if consistent is False:
        out['verdict'] = 'mismatch'
    elif failed:
        out['verdict'] = 'violation'
    elif undec:
        out['verdict'] = 'undecided'
    else:
        out['verdict'] = 'holds'
    return out
