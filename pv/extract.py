"""Mechanical .pyx -> Python text extraction (DESIGN 2.3). Line based; every rewrite is counted.
Everything that is not listed in the log is the original text."""
import re
import collections

CT = r'(?:unsigned\s+)?(?:double|int|long|float|bint|Py_ssize_t)(?:\s*\[\s*:\s*(?:,\s*:\s*)*\])?'

PRELUDE = ("import numpy as _np  # extraction prelude: libc fabs/fmax/fmin on C doubles -> numpy float64 (no ZeroDivisionError: cdivision)\n"
           "def fabs(x): return _np.float64(abs(x))\n"
           "def fmax(a, b): return _np.float64(max(a, b))\n"
           "def fmin(a, b): return _np.float64(min(a, b))\n"
           "xrange = range\n")
PRELUDE_LINES = PRELUDE.count('\n')


def extract(text):
    log = collections.Counter()
    out = []
    for ln in text.split('\n'):
        s = ln
        if re.match(r'\s*#\s*cython\s*:', s) or re.match(r'\s*#cython\s', s):
            log['directive-comment-kept'] += 1
        if re.match(r'\s*cimport\s|\s*from\s+\S+\s+cimport\s', s):
            m = re.match(r'(\s*)from\s+(pyspike\.\S+)\s+cimport\s+(.*)$', s)
            if m:
                log['cimport->import'] += 1
                out.append("%sfrom %s import %s" % (m.group(1), m.group(2), m.group(3)))
            else:
                log['cimport-removed'] += 1
                out.append(re.match(r'\s*', s).group(0) + 'pass  # ' + s.strip())
            continue
        m = re.match(r'(\s*)with\s+nogil\s*:\s*(#.*)?$', s)
        if m:
            log['with-nogil->if True'] += 1
            out.append(m.group(1) + 'if True:  # with nogil')
            continue
        m = re.match(r'(\s*)cdef\s+(?:inline\s+)?' + CT + r'\s+(\w+)\s*\((.*)$', s)
        if m:
            log['cdef-func->def'] += 1
            s = "%sdef %s(%s" % (m.group(1), m.group(2), m.group(3))
        else:
            m = re.match(r'(\s*)cdef\s+' + CT + r'\s+(.*)$', s)
            if m:
                rest = m.group(2)
                if '=' in rest:
                    log['cdef-decl-with-init->assign'] += 1
                    s = m.group(1) + rest
                else:
                    log['cdef-decl-removed'] += 1
                    s = m.group(1) + 'pass  # cdef ' + rest
        s2 = re.sub(r'(?<![\w.])' + CT + r'\s+(?=\w+\s*(?:[,)=]|$))', '', s)
        if s2 != s:
            log['param-type-stripped'] += 1
            s = s2
        s2 = re.sub(r'\)\s*nogil\s*:', '):', s)
        if s2 != s:
            log['nogil-suffix-stripped'] += 1
            s = s2
        out.append(s)
    return PRELUDE + '\n'.join(out), dict(log)
