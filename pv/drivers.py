"""History drivers (C09 / C10): short programs over the REAL classes, executed by the symbolic interpreter in bounded
mode. They are part of the verification harness (not of the repository); every method they call is the repository's."""


def pwc_scale_then_eval(x, y, ts, fac):
    f = PieceWiseConstFunc(x, y)
    a = f(ts)
    f.mul_scalar(fac)
    b = f(ts)
    g = PieceWiseConstFunc(f.x, f.y)
    c = g(ts)
    return a, b, c


def pwl_scale_then_eval(x, y1, y2, ts, fac):
    f = PieceWiseLinFunc(x, y1, y2)
    a = f(ts)
    f.mul_scalar(fac)
    b = f(ts)
    g = PieceWiseLinFunc(f.x, f.y1, f.y2)
    c = g(ts)
    return a, b, c


def pwc_accumulate(x0, y0, x, y, fac):
    # the same operand is added twice with a scaling in between ...
    acc = PieceWiseConstFunc(x0, y0)
    f = PieceWiseConstFunc(x, y)
    acc.add(f)
    acc.mul_scalar(fac)
    acc.add(f)
    # ... reference: the same operations with a fresh, equal operand each time
    ref = PieceWiseConstFunc(x0, y0)
    fa = PieceWiseConstFunc(x, y)
    fb = PieceWiseConstFunc(x, y)
    ref.add(fa)
    ref.mul_scalar(fac)
    ref.add(fb)
    return acc.x, acc.y, ref.x, ref.y, f.x, f.y


def pwl_accumulate(x0, y10, y20, x, y1, y2, fac):
    acc = PieceWiseLinFunc(x0, y10, y20)
    f = PieceWiseLinFunc(x, y1, y2)
    acc.add(f)
    acc.mul_scalar(fac)
    acc.add(f)
    ref = PieceWiseLinFunc(x0, y10, y20)
    fa = PieceWiseLinFunc(x, y1, y2)
    fb = PieceWiseLinFunc(x, y1, y2)
    ref.add(fa)
    ref.mul_scalar(fac)
    ref.add(fb)
    return acc.x, acc.y1, acc.y2, ref.x, ref.y1, ref.y2, f.x, f.y1, f.y2


def pwc_copy_independent(x, y, fac):
    f = PieceWiseConstFunc(x, y)
    g = f.copy()
    f.mul_scalar(fac)
    return g.x, g.y, f.x, f.y


def pwl_copy_independent(x, y1, y2, fac):
    f = PieceWiseLinFunc(x, y1, y2)
    g = f.copy()
    f.mul_scalar(fac)
    return g.x, g.y1, g.y2, f.y1, f.y2


# query ; add ; scale ; query  -- against a fresh object with the same content (C10 / C11: no state survives an update)
def pwc_query_add_query(x0, y0, x, y, a, b, fac):
    f = PieceWiseConstFunc(x0, y0)
    g = PieceWiseConstFunc(x, y)
    r1 = f.integral((a, b))
    v1 = f.avrg((a, b))
    f.add(g)
    f.mul_scalar(fac)
    r2 = f.integral((a, b))
    v2 = f.avrg((a, b))
    h = PieceWiseConstFunc(f.x, f.y)
    r3 = h.integral((a, b))
    v3 = h.avrg((a, b))
    return r1, v1, r2, v2, r3, v3


def pwl_query_add_query(x0, y10, y20, x, y1, y2, a, b, fac):
    f = PieceWiseLinFunc(x0, y10, y20)
    g = PieceWiseLinFunc(x, y1, y2)
    r1 = f.integral((a, b))
    v1 = f.avrg((a, b))
    f.add(g)
    f.mul_scalar(fac)
    r2 = f.integral((a, b))
    v2 = f.avrg((a, b))
    h = PieceWiseLinFunc(f.x, f.y1, f.y2)
    r3 = h.integral((a, b))
    v3 = h.avrg((a, b))
    return r1, v1, r2, v2, r3, v3


def disc_query_add_query(x0, y0, mp0, x, y, mp, a, b, fac):
    f = DiscreteFunc(x0, y0, mp0)
    g = DiscreteFunc(x, y, mp)
    r1 = f.integral((a, b))
    f.add(g)
    f.mul_scalar(fac)
    r2 = f.integral((a, b))
    h = DiscreteFunc(f.x, f.y, f.mp)
    r3 = h.integral((a, b))
    return r1[0], r1[1], r2[0], r2[1], r3[0], r3[1]
