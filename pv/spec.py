"""Spec functions taken from the property statements (DESIGN 4.2). They are written over accessors
(A[k] -> term, A.n) and work both with concrete and with symbolic indices / lengths."""
import z3
from .sym import *  # noqa


def conc(*xs):
    return all(isinstance(x, int) for x in xs)


def sorted_strict(A, n=None):
    n = A.n if n is None else n
    if isinstance(n, int):
        return band(*[A[k] < A[k + 1] for k in range(n - 1)])
    return forall2(0, n, lambda a, b: A[a] < A[b], name='s')


def inside(A, t0, t1, n=None):
    n = A.n if n is None else n
    if isinstance(n, int):
        return band(*([t0 <= A[0], A[n - 1] <= t1] if n > 0 else []))
    return z3.Implies(n > 0, z3.And(t0 <= A[0], A[n - 1] <= t1))


def valid_train(A, t0, t1, nonempty=True):
    """sorted, duplicate free, inside [t0,t1]"""
    n = A.n
    return band(cmp('>=', n, 1 if nonempty else 0), sorted_strict(A, n), inside(A, t0, t1, n))


def sel_guard(A, i):
    """A[i] for possibly out-of-range concrete i (value irrelevant then)"""
    if isinstance(i, int) and isinstance(A.n, int) and not (0 <= i < A.n):
        return z3.RealVal(0)
    return A[i]


def nu(A, i, t0, t1):
    """C01: length of the ISI of train A 'after spike i' (i = -1: before the first spike), with the edge
    rules: first / last interval = max(edge distance, neighbouring ISI), one-spike train: edge distance."""
    N = A.n
    if conc(N, i):
        if i == -1:
            return rmax(A[0] - t0, A[1] - A[0]) if N > 1 else A[0] - t0
        if i == N - 1:
            return rmax(t1 - A[N - 1], A[N - 1] - A[N - 2]) if N > 1 else t1 - A[N - 1]
        return A[i + 1] - A[i]
    N_, i_ = toI(N), toI(i)
    first = z3.If(N_ > 1, rmax(A[0] - t0, A[1] - A[0]), A[0] - t0)
    last = z3.If(N_ > 1, rmax(t1 - A[N_ - 1], A[N_ - 1] - A[N_ - 2]), t1 - A[N_ - 1])
    return z3.If(i_ == -1, first, z3.If(i_ == N_ - 1, last, A[i_ + 1] - A[i_]))


def ratio(v1, v2, m):
    """C01: |v1-v2| / max(v1, v2, MRTS)"""
    return split(arith('/', rabs(arith('-', v1, v2)), rmax(rmax(v1, v2), m)))[0]


def ratio_den(v1, v2, m):
    return rmax(rmax(v1, v2), m)


def cur(A, i, t0):
    """time of spike i, t0 for i = -1"""
    if conc(i):
        return t0 if i < 0 else A[i]
    return z3.If(toI(i) >= 0, A[toI(i)], t0)


def covers(A, g, xl, xr):
    """spike interval g of train A (g=-1: before first, g=N-1: after last) contains the segment [xl, xr]"""
    N = A.n
    if conc(N, g):
        return band(A[g] <= xl if g >= 0 else True, xr <= A[g + 1] if g < N - 1 else True)
    g_, N_ = toI(g), toI(N)
    return z3.And(z3.Implies(g_ >= 0, A[g_] <= xl), z3.Implies(g_ < N_ - 1, xr <= A[g_ + 1]))
