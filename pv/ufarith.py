"""Ground instantiation of algebraic laws for the UF abstraction of nonlinear arithmetic (sym.UF).

With sym.UF on, x*y and x/y of two symbolic reals are MUL(x, y) / DIV(x, y), uninterpreted.  For every MUL / DIV
application that occurs (ground) in an obligation, the instances below are added to its hypotheses.  Each instance is
a theorem of real arithmetic (with z3's total division: a law about x/L is only stated under L != 0), so whatever is
proved with them holds for the interpreted operators: the abstraction only ever makes an obligation harder to prove.

  MUL(a, x) = 0  <=>  a = 0 or x = 0
  MUL(a, x) = MUL(x, a)
  a >= 0 and x >= 0  =>  MUL(a, x) >= 0 ;   L > 0 and n >= 0  =>  DIV(n, L) >= 0
  L != 0 and n = 0                        =>  DIV(n, L) = 0
  L != 0 and x = L                        =>  DIV(MUL(a, x), L) = a          (and with the factors swapped)
  L != 0, n = MUL(a, x) + MUL(b, y):
       x = 0 and y = L                    =>  DIV(n, L) = b
       y = 0 and x = L                    =>  DIV(n, L) = a
       a = b and x + y = L                =>  DIV(n, L) = a                   (distributivity)

A universally quantified goal is skolemised first (fresh constants for its bound variables) so that the applications
in its body are ground."""
import z3
from .sym import MUL, DIV, fresh

_MUL, _DIV = MUL.name(), DIV.name()


def _is(t, nm):
    return z3.is_app(t) and t.decl().name() == nm and t.num_args() == 2


def collect(terms):
    seen, muls, divs = set(), {}, {}
    stack = list(terms)
    while stack:
        t = stack.pop()
        i = t.get_id()
        if i in seen:
            continue
        seen.add(i)
        if z3.is_quantifier(t) or z3.is_var(t):
            continue
        if z3.is_app(t):
            if _is(t, _MUL):
                muls[i] = t
            elif _is(t, _DIV):
                divs[i] = t
            stack.extend(t.children())
    return list(muls.values()), list(divs.values())


def instances(muls, divs):
    out = []
    for m in muls:
        a, x = m.arg(0), m.arg(1)
        out.append((m == 0) == z3.Or(a == 0, x == 0))
        out.append(m == MUL(x, a))
        out.append(z3.Implies(z3.And(a >= 0, x >= 0), m >= 0))
    for d in divs:
        n, L = d.arg(0), d.arg(1)
        nz = L != 0
        out.append(z3.Implies(z3.And(nz, n == 0), d == 0))
        out.append(z3.Implies(z3.And(L > 0, n >= 0), d >= 0))
        if _is(n, _MUL):
            a, x = n.arg(0), n.arg(1)
            out.append(z3.Implies(z3.And(nz, x == L), d == a))
            out.append(z3.Implies(z3.And(nz, a == L), d == x))
        elif z3.is_add(n) and n.num_args() == 2 and _is(n.arg(0), _MUL) and _is(n.arg(1), _MUL):
            a, x = n.arg(0).arg(0), n.arg(0).arg(1)
            b, y = n.arg(1).arg(0), n.arg(1).arg(1)
            out.append(z3.Implies(z3.And(nz, x == 0, y == L), d == b))
            out.append(z3.Implies(z3.And(nz, y == 0, x == L), d == a))
            out.append(z3.Implies(z3.And(nz, a == b, x + y == L), d == a))
    return out


def skolemise(goal):
    """forall k. B(k)  ->  B(k0) with k0 fresh, in positive positions (conjuncts, consequents): proving the skolemised
    goal for arbitrary fresh constants proves the quantified one"""
    if z3.is_quantifier(goal) and goal.is_forall():
        ks = [fresh('sk_' + goal.var_name(i), goal.var_sort(i)) for i in range(goal.num_vars())]
        return skolemise(z3.substitute_vars(goal.body(), *reversed(ks)))
    if z3.is_and(goal):
        return z3.And(*[skolemise(g) for g in goal.children()])          # positive positions only
    if z3.is_implies(goal):
        return z3.Implies(goal.arg(0), skolemise(goal.arg(1)))
    return goal


def unfold(terms, defs):
    """defs: [(uninterpreted function, builder)] -- named spec functions ('opaque' definitions).  Every GROUND
    application f(args) that occurs gets its defining equation f(args) == builder(*args); applications under a
    quantifier stay folded (that is the point: frame reasoning about the untouched elements is congruence on the
    small folded terms)."""
    if not defs:
        return []
    names = {f.name(): (f, b) for f, b in defs}
    seen, out, stack = set(), [], list(terms)
    while stack:
        t = stack.pop()
        i = t.get_id()
        if i in seen:
            continue
        seen.add(i)
        if z3.is_quantifier(t) or z3.is_var(t):
            continue
        if z3.is_app(t):
            nm = t.decl().name()
            if nm in names and t.num_args() == names[nm][0].arity():
                out.append(t == names[nm][1](*t.children()))
            stack.extend(t.children())
    return out


def case_split(obl):
    """a skolemised range goal  lo <= k and k < hi  =>  body(k)  becomes two obligations: k < hi-1 (the cells an
    iteration leaves alone) and k == hi-1 (the cell it adds) - exhaustive for integers, each much cheaper than both
    together"""
    from .engine import Obl
    g = obl.goal
    if not (z3.is_expr(g) and z3.is_implies(g)):
        return [obl]
    ante = g.arg(0)
    if not (z3.is_and(ante) and ante.num_args() == 2 and z3.is_lt(ante.arg(1)) and ante.arg(1).arg(0).sort() == z3.IntSort()
            and z3.is_const(ante.arg(1).arg(0)) and str(ante.arg(1).arg(0)).startswith('sk_')):
        return [obl]
    k, hi = ante.arg(1).arg(0), ante.arg(1).arg(1)
    out = []
    for tag, extra in (('frame', k < hi - 1), ('new', k == hi - 1)):
        out.append(Obl(obl.name + '/' + tag, list(obl.hyp), z3.Implies(z3.And(ante, extra), g.arg(1)), obl.kind, dict(obl.meta)))
    return out


def instantiate(obl, defs=()):
    goal = skolemise(obl.goal) if z3.is_expr(obl.goal) else obl.goal
    hyp = list(obl.hyp)
    ground = [h for h in hyp if z3.is_expr(h)] + ([goal] if z3.is_expr(goal) else [])
    eqs, seen_eq = [], set()
    frontier = ground
    for _round in range(4):                      # definitions may mention other named functions: unfold those too
        new = [e for e in unfold(frontier, defs) if e.get_id() not in seen_eq]
        if not new:
            break
        for e in new:
            seen_eq.add(e.get_id())
        eqs += new
        frontier = new
    hyp += eqs
    ground += eqs
    # two rounds: the commutativity instances introduce swapped applications
    muls, divs = collect(ground)
    inst = instances(muls, divs)
    obl.goal = goal
    obl.hyp = hyp + inst
    obl.meta = dict(obl.meta, uf_instances=len(inst))
    return obl
