"""Relational groups for C07 (symmetry, identity, range), C08 (mirror, shift/scale), C15 / C16 (monotonicity)."""
import z3
from ..sym import *  # noqa
from ..relational import Relation, RelGroup
from .base import register
from ..contracts.isi import IsiProfile
from ..contracts.spike import SpikeProfile
from ..contracts.sync import DiscreteProfile, DirectionalityProfile, CoincidenceSingle

DIRPY = 'pyspike/cython/directionality_python_backend.py'


def t(x):
    return split(x)[0]


def eq_lists(a, b):
    if len(a) != len(b):
        return False
    return band(*[cmp('==', t(x), t(y)) for x, y in zip(a, b)])


def fin_all(*lists):
    return band(*[split(x)[1] for l in lists for x in l])


def names_of(ctx):
    arrs = [p for p in ctx.argorder if ctx.inputs[p][0] == 'array']
    return arrs[0], arrs[1]


# ---- transforms ------------------------------------------------------------------------------
def tr_swap(ctx, a):
    n1, n2 = names_of(ctx)
    b = dict(a)
    b[n1], b[n2] = a[n2], a[n1]
    return b, []


def tr_mirror(ctx, a):
    n1, n2 = names_of(ctx)
    T = arith('+', a['t_start'], a['t_end'])
    b = dict(a)
    b[n1] = [arith('-', T, x) for x in reversed(a[n1])]
    b[n2] = [arith('-', T, x) for x in reversed(a[n2])]
    return b, []


def tr_affine(lam):
    def f(ctx, a):
        n1, n2 = names_of(ctx)
        c = z3.Real('shift')
        g = lambda x: arith('+', arith('*', lam, x), c)
        b = dict(a)
        b[n1] = [g(x) for x in a[n1]]
        b[n2] = [g(x) for x in a[n2]]
        b['t_start'], b['t_end'] = g(a['t_start']), g(a['t_end'])
        for p in ('MRTS', 'max_tau'):
            if p in a:
                b[p] = arith('*', lam, a[p])
        return b, []
    return f


def tr_param(pname, newname):
    """second run with a larger value of one parameter"""
    def f(ctx, a):
        b = dict(a)
        v2 = z3.Real(newname)
        b[pname] = v2
        return b, [cmp('<=', a[pname], v2)]
    return f


def tr_small_mrts(ctx, a):
    """second run with MRTS = 0 (first run: MRTS below every ISI involved, see extra_pre)"""
    b = dict(a)
    b['MRTS'] = 0
    return b, []


# ---- relations -------------------------------------------------------------------------------
def same_all(ctx, o1, o2, a1, a2):
    out = []
    for k, (x, y) in enumerate(zip(o1, o2)):
        out.append(('same[%d]' % k, eq_lists(x, y)))
    return out


def rel_isi_mirror(ctx, o1, o2, a1, a2):
    x1, y1 = o1
    x2, y2 = o2
    T = arith('+', a1['t_start'], a1['t_end'])
    return [('x', eq_lists([arith('-', T, v) for v in reversed(x1)], x2)), ('y', eq_lists(list(reversed(y1)), y2))]


def rel_spike_mirror(ctx, o1, o2, a1, a2):
    x1, s1, e1 = o1
    x2, s2, e2 = o2
    T = arith('+', a1['t_start'], a1['t_end'])
    return [('x', eq_lists([arith('-', T, v) for v in reversed(x1)], x2)),
            ('left<->right', band(eq_lists(list(reversed(e1)), s2), eq_lists(list(reversed(s1)), e2)))]


def rel_disc_mirror(sign):
    def f(ctx, o1, o2, a1, a2):
        x1, c1, m1 = o1
        x2, c2, m2 = o2
        T = arith('+', a1['t_start'], a1['t_end'])
        vals = [arith('*', sign, v) for v in reversed(c1)]
        return [('x', eq_lists([arith('-', T, v) for v in reversed(x1)], x2)), ('values', eq_lists(vals, c2)), ('mp', eq_lists(list(reversed(m1)), m2))]
    return f


def rel_affine(lam):
    def f(ctx, o1, o2, a1, a2):
        c = z3.Real('shift')
        out = [('x', eq_lists([arith('+', arith('*', lam, v), c) for v in o1[0]], o2[0]))]
        for k in range(1, len(o1)):
            out.append(('values[%d]' % k, eq_lists(o1[k], o2[k])))
        return out
    return f


def rel_negate(ctx, o1, o2, a1, a2):
    """order profile / directionality under train swap"""
    if len(o1) == 3 and isinstance(o1[0], list):
        x1, c1, m1 = o1
        x2, c2, m2 = o2
        return [('x', eq_lists(x1, x2)), ('negated', eq_lists([neg(v) for v in c1], c2)), ('mp', eq_lists(m1, m2))]
    d1a, d1b = o1
    d2a, d2b = o2
    return [('swapped', band(eq_lists(d1a, d2b), eq_lists(d1b, d2a)))]


def rel_le(idx, strict_names=False):
    """values of run 2 (larger parameter) never exceed those of run 1"""
    def f(ctx, o1, o2, a1, a2):
        out = [('same_x', eq_lists(o1[0], o2[0]))]
        for k in idx:
            out.append(('non_increasing[%d]' % k, band(*[cmp('<=', t(y), t(x)) for x, y in zip(o1[k], o2[k])]) if len(o1[k]) == len(o2[k]) else False))
        return out
    return f


def rel_ge_disc(ctx, o1, o2, a1, a2):
    """a larger MRTS / max_tau never removes a coincidence"""
    if o1 and isinstance(o1[0], list):
        return [('same_x', eq_lists(o1[0], o2[0])), ('never_removed', band(*[cmp('>=', t(y), t(x)) for x, y in zip(o1[1], o2[1])])),
                ('mp', eq_lists(o1[2], o2[2]))]
    return [('never_removed', band(*[cmp('>=', t(y), t(x)) for x, y in zip(o1, o2)]))]


def rel_range(lo, hi, idx):
    def f(ctx, o1, o2, a1, a2):
        out = []
        for k in idx:
            out.append(('range[%d]' % k, band(*[band(cmp('>=', t(v), lo), cmp('<=', t(v), hi)) for v in o1[k]])))
        return out
    return f


def rel_sync_range(ctx, o1, o2, a1, a2):
    x, c, m = o1
    return [('0<=c<=mp', band(*[band(cmp('>=', t(a), 0), cmp('<=', t(a), t(b))) for a, b in zip(c, m)]))]


def rel_order_range(ctx, o1, o2, a1, a2):
    x, c, m = o1
    return [('|a|<=mp', band(*[band(cmp('>=', t(a), neg(t(b))), cmp('<=', t(a), t(b))) for a, b in zip(c, m)]))]


def tr_id(ctx, a):
    return dict(a), []


def tr_identical(ctx, a):
    n1, n2 = names_of(ctx)
    b = dict(a)
    b[n2] = list(a[n1])
    return b, []


def rel_identity(kind):
    def f(ctx, o1, o2, a1, a2):
        if kind == 'isi':
            return [('zero', band(*[cmp('==', t(v), 0) for v in o2[1]]))]
        if kind == 'spike':
            return [('zero', band(*[cmp('==', t(v), 0) for v in o2[1] + o2[2]]))]
        if kind == 'sync':
            x, c, m = o2
            return [('all_coincident', band(*[cmp('==', t(a), t(b)) for a, b in zip(c, m)]))]
        if kind == 'dir':
            return [('zero', band(*[cmp('==', t(v), 0) for v in o2[0] + o2[1]]))]
    return f


def small_mrts_pre(ctx):
    """MRTS below every inter-spike interval involved (incl. edge intervals)"""
    M = ctx.M
    out = [cmp('>', M, 0)]
    for S in (ctx.S1, ctx.S2):
        for k in range(S.n - 1):
            out.append(cmp('<', M, S[k + 1] - S[k]))
        if S.n >= 1:
            out.append(implies(cmp('>', S[0], ctx.t0), cmp('<', M, S[0] - ctx.t0)))
            out.append(implies(cmp('<', S[S.n - 1], ctx.t1), cmp('<', M, ctx.t1 - S[S.n - 1])))
    return out


def sizes(lo, hi):
    return [(a, b) for a in range(lo, hi + 1) for b in range(lo, hi + 1)]


def sizes_ri(lo, hi):
    return [(a, b, ri) for (a, b) in sizes(lo, hi) for ri in (False, True)]


SPK_Q = [(a, b, ri) for (a, b) in ((1, 1), (1, 2), (2, 1)) for ri in (False, True)]
SPK_T = sizes_ri(1, 2)
_BS = 'N1+N2 <= 3 (quick) / N1,N2 <= 2 (thorough), RI in {False,True}; nonlinear goals the solvers leave undecided within 1.5 s are reported as undecided and NOT counted as discharged'


_BT = 'N1,N2 <= 2 (quick) / <= 3 (thorough); all real spike times and parameters'
ISI, SPK = IsiProfile(), SpikeProfile()
SYNC, ORD = DiscreteProfile(), DiscreteProfile(DIRPY, 'spike_train_order_profile_python', kind='order')
DIRP, SINGLE = DirectionalityProfile(), CoincidenceSingle()

# C07
register(RelGroup('rel_isi.B', ISI, [Relation('swap', tr_swap, same_all), Relation('identity', tr_identical, rel_identity('isi')),
                                     Relation('range', tr_id, rel_range(0, 1, [1]))], sizes(1, 2), sizes(1, 3), _BT))
register(RelGroup('rel_spike.B', SPK, [Relation('swap', tr_swap, same_all), Relation('identity', tr_identical, rel_identity('spike')),
                                       Relation('range', tr_id, rel_range(0, 1, [1, 2]))], SPK_Q, SPK_T, _BS, allow_open=('swap', 'identity', 'range')))
register(RelGroup('rel_sync.B', SYNC, [Relation('swap', tr_swap, same_all), Relation('identity', tr_identical, rel_identity('sync')),
                                       Relation('range', tr_id, rel_sync_range)], sizes(0, 2), sizes(0, 3), _BT))
_NZ = lambda hi: [sz for sz in sizes(0, hi) if sz != (0, 0)]   # (0,0): the empty-empty convention entries (1,1) are edge entries that never count
register(RelGroup('rel_order.B', ORD, [Relation('swap_negates', tr_swap, rel_negate), Relation('range', tr_id, rel_order_range)], _NZ(2), _NZ(3), _BT))
register(RelGroup('rel_dir.B', DIRP, [Relation('swap_negates', tr_swap, rel_negate), Relation('identity', tr_identical, rel_identity('dir'))], sizes(0, 2), sizes(0, 3), _BT))
# C08
register(RelGroup('mirror_isi.B', ISI, [Relation('mirror', tr_mirror, rel_isi_mirror)], sizes(1, 2), sizes(1, 3), _BT))
register(RelGroup('mirror_spike.B', SPK, [Relation('mirror', tr_mirror, rel_spike_mirror)], SPK_Q, SPK_T, _BS, allow_open=('mirror',)))
register(RelGroup('mirror_sync.B', SYNC, [Relation('mirror', tr_mirror, rel_disc_mirror(1))], sizes(0, 2), sizes(0, 3), _BT))
register(RelGroup('mirror_order.B', ORD, [Relation('mirror', tr_mirror, rel_disc_mirror(-1))], _NZ(2), _NZ(3), _BT))
_AFF = [Relation('shift_scale_x2', tr_affine(2), rel_affine(2)), Relation('shift_scale_x1/4', tr_affine(Fraction(1, 4)), rel_affine(Fraction(1, 4)))]
register(RelGroup('affine_isi.B', ISI, _AFF, sizes(1, 2), sizes(1, 3), _BT + '; scale factors 2 and 1/4, shift symbolic; goals the solvers leave undecided within 1.5 s are reported, not counted (the scale invariance of the ISI ratio is lemma ratio_scale_invariant)',
                  allow_open=('shift_scale_x2', 'shift_scale_x1/4')))
register(RelGroup('affine_spike.B', SPK, _AFF, SPK_Q, SPK_T, _BS + '; scale factors 2 and 1/4, shift symbolic', allow_open=('shift_scale_x2', 'shift_scale_x1/4')))
register(RelGroup('affine_sync.B', SYNC, _AFF, sizes(0, 2), sizes(0, 3), _BT + '; scale factors 2 and 1/4, shift symbolic'))
register(RelGroup('affine_order.B', ORD, _AFF, sizes(0, 2), sizes(0, 3), _BT + '; scale factors 2 and 1/4, shift symbolic'))
# C15 / C16
register(RelGroup('mrts_isi.B', ISI, [Relation('mrts_monotone', tr_param('MRTS', 'MRTS2'), rel_le([1])),
                                      Relation('mrts_below_all_isis', tr_small_mrts, same_all, extra_pre=small_mrts_pre)], sizes(1, 2), sizes(1, 3), _BT))
register(RelGroup('mrts_spike.B', SPK, [Relation('mrts_monotone', tr_param('MRTS', 'MRTS2'), rel_le([1, 2])),
                                        Relation('mrts_below_all_isis', tr_small_mrts, same_all, extra_pre=small_mrts_pre)], SPK_Q, SPK_T, _BS,
                  allow_open=('mrts_monotone', 'mrts_below_all_isis')))
register(RelGroup('mrts_sync.B', SYNC, [Relation('mrts_monotone', tr_param('MRTS', 'MRTS2'), rel_ge_disc),
                                        Relation('mrts_below_all_isis', tr_small_mrts, same_all, extra_pre=small_mrts_pre)], sizes(0, 2), sizes(0, 3), _BT))


def tr_maxtau(ctx, a):
    b = dict(a)
    v2 = z3.Real('max_tau2')
    b['max_tau'] = v2
    return b, [cmp('<=', a['max_tau'], v2), cmp('>', a['max_tau'], 0)]


register(RelGroup('maxtau_sync.B', SYNC, [Relation('max_tau_monotone', tr_maxtau, rel_ge_disc)], sizes(0, 2), sizes(0, 3), _BT))
register(RelGroup('maxtau_single.B', SINGLE, [Relation('max_tau_monotone', tr_maxtau, rel_ge_disc)], sizes(0, 2), sizes(0, 3), _BT))


# ---- C05 / C12: compiled single-pass distances = average of the profile (two-function composition)
class _Fn(object):
    """bare description of the second function of a composition"""
    cls = None

    def __init__(self, rel, func, models):
        self.rel, self.func, self._m = rel, func, models

    def call_models(self, mode):
        return self._m


DISTPYX = 'pyspike/cython/cython_distances.pyx'
from ..contracts.spike import model_get_min_dist, model_dist_at_t  # noqa


def tr_to_isidist(ctx, a):
    return dict(a), []


def tr_to_spikedist(ctx, a):
    b = {'t1': a['spikes1'], 't2': a['spikes2'], 't_start': a['t_start'], 't_end': a['t_end'], 'MRTS': a['MRTS'], 'RI': a['RI']}
    return b, []


def rel_avg_pwc(ctx, o1, o2, a1, a2):
    x, y = o1
    tot = 0
    for k in range(len(y)):
        tot = arith('+', tot, arith('*', y[k], arith('-', x[k + 1], x[k])))
    exp = arith('/', tot, arith('-', a1['t_end'], a1['t_start']))
    return [('distance_is_profile_average', cmp('==', t(o2), t(exp))), ('finite', split(o2)[1])]


def rel_avg_pwl(ctx, o1, o2, a1, a2):
    x, ys, ye = o1
    tot = 0
    for k in range(len(ys)):
        tot = arith('+', tot, arith('*', arith('*', Fraction(1, 2), arith('+', ys[k], ye[k])), arith('-', x[k + 1], x[k])))
    exp = arith('/', tot, arith('-', a1['t_end'], a1['t_start']))
    return [('distance_is_profile_average', cmp('==', t(o2), t(exp))), ('finite', split(o2)[1])]


register(RelGroup('isidist_pyx.B', ISI, [Relation('avg', tr_to_isidist, rel_avg_pwc)], sizes(1, 2), sizes(1, 3), _BT,
                  contract2=_Fn(DISTPYX, 'isi_distance_cython', {})))
register(RelGroup('spikedist_pyx.B', SPK, [Relation('avg', tr_to_spikedist, rel_avg_pwl)], SPK_Q, SPK_T, _BS,
                  contract2=_Fn(DISTPYX, 'spike_distance_cython', {'get_min_dist_cython': model_get_min_dist(True), 'dist_at_t': model_dist_at_t}),
                  allow_open=()))


# ---- C08 for MRTS='auto': the pooled ISI lengths of a train are invariant under mirror / shift and scale with the time axis
from ..contracts.misc import IsiLengths  # noqa


def tr_mirror1(ctx, a):
    T = arith('+', a['t_start'], a['t_end'])
    b = dict(a)
    b['spike_times'] = [arith('-', T, x) for x in reversed(a['spike_times'])]
    return b, []


def tr_affine1(lam):
    def f(ctx, a):
        c = z3.Real('shift')
        g = lambda x: arith('+', arith('*', lam, x), c)
        return dict(spike_times=[g(x) for x in a['spike_times']], t_start=g(a['t_start']), t_end=g(a['t_end'])), []
    return f


def rel_pool(lam):
    def f(ctx, o1, o2, a1, a2):
        ss = lambda l: sum_sq(l)
        return [('count', len(o1) == len(o2)), ('sum_of_squares', cmp('==', t(arith('*', lam * lam, ss(o1))), t(ss(o2))))]
    return f


def sum_sq(l):
    tot = 0
    for v in l:
        tot = arith('+', tot, arith('*', v, v))
    return tot


class _IsiLenRel(IsiLengths):
    def setup(self, mode, size, values=None):
        st, pre, ctx = IsiLengths.setup(self, mode, size, values)
        return st, pre, ctx


register(RelGroup('mirror_isilen.B', _IsiLenRel(), [Relation('mirror', tr_mirror1, rel_pool(1)), Relation('shift_scale_x2', tr_affine1(2), rel_pool(2))],
                  [(n,) for n in range(0, 4)], [(n,) for n in range(0, 5)], '<= 3 (quick) / 4 (thorough) spikes'))
