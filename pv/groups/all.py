"""Instantiates and registers every obligation group."""
from .base import register, KernelGroup, GROUPS
from ..contracts.isi import IsiProfile

PYB = 'pyspike/cython/python_backend.py'
PROF = 'pyspike/cython/cython_profiles.pyx'
DIST = 'pyspike/cython/cython_distances.pyx'


def sizes(lo, hi1, hi2=None):
    hi2 = hi1 if hi2 is None else hi2
    return [(a, b) for a in range(lo, hi1 + 1) for b in range(lo, hi2 + 1)]


def kernel(name, contract, strength, finder=(), **kw):
    g = KernelGroup(name, contract, strength, **kw)
    g.finder_sizes = list(finder)
    return register(g)


# ---- C01: ISI profile kernels
kernel('isi_py.P', IsiProfile(), 'P', finder=sizes(1, 3))
kernel('isi_pyx.P', IsiProfile(PROF, 'isi_profile_cython'), 'P', finder=sizes(1, 3))
kernel('isi_py.B', IsiProfile(), 'B', sizes_quick=sizes(1, 2), sizes_thorough=sizes(1, 3, 4),
       bound_text='N1,N2 <= 2 (quick) / N1<=3,N2<=4 (thorough); all real spike times')
