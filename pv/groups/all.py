"""Instantiates and registers every obligation group."""
from .base import register, KernelGroup, GROUPS
from ..contracts.isi import IsiProfile

PYB = 'pyspike/cython/python_backend.py'
PROF = 'pyspike/cython/cython_profiles.pyx'
DIST = 'pyspike/cython/cython_distances.pyx'


def sizes(lo, hi1, hi2=None):
    hi2 = hi1 if hi2 is None else hi2
    return [(a, b) for a in range(lo, hi1 + 1) for b in range(lo, hi2 + 1)]


def kernel(name, contract, strength, finder=(), **kw):
    g = KernelGroup(name, contract, strength, **kw)
    g.finder_sizes = list(finder)
    return register(g)


# ---- C01: ISI profile kernels
kernel('isi_py.P', IsiProfile(), 'P', finder=sizes(1, 3))
kernel('isi_pyx.P', IsiProfile(PROF, 'isi_profile_cython'), 'P', finder=sizes(1, 3))
kernel('isi_py.B', IsiProfile(), 'B', sizes_quick=sizes(1, 2), sizes_thorough=sizes(1, 3, 4),
       bound_text='N1,N2 <= 2 (quick) / N1<=3,N2<=4 (thorough); all real spike times')

# ---- C02: SPIKE kernel and its helpers
from ..contracts.spike import GetMinDist, DistAtT, SpikeProfile  # noqa

kernel('gmd_py.P', GetMinDist(), 'P', finder=[(n, s) for n in range(0, 4) for s in range(-1, n)])
kernel('gmd_prof_pyx.P', GetMinDist(PROF, 'get_min_dist_cython', with_n=True), 'P', finder=[(n, s) for n in range(0, 4) for s in range(-1, n)])
kernel('gmd_dist_pyx.P', GetMinDist(DIST, 'get_min_dist_cython', with_n=True), 'P', finder=[(n, s) for n in range(0, 4) for s in range(-1, n)])
for _nm, _rel in (('py', PYB), ('prof_pyx', PROF), ('dist_pyx', DIST)):
    kernel('dist_at_t_%s.P' % _nm, DistAtT(_rel), 'B', sizes_quick=[(False,), (True,)], sizes_thorough=[(False,), (True,)],
           bound_text='loop-free: complete for RI in {False, True}')
    GROUPS['dist_at_t_%s.P' % _nm].strength = 'P'
    GROUPS['dist_at_t_%s.P' % _nm].tasks = (lambda self_: (lambda tier: [('B', (False,)), ('B', (True,))]))(None)


def sizes_ri(lo, hi1, hi2=None):
    return [(a, b, ri) for (a, b) in sizes(lo, hi1, hi2) for ri in (False, True)]


kernel('spike_py.B', SpikeProfile(), 'B', sizes_quick=sizes_ri(1, 2), sizes_thorough=sizes_ri(1, 3),
       bound_text='N1,N2 <= 2 (quick) / <= 3 (thorough), RI in {False,True}; all real spike times, MRTS >= 0')
kernel('spike_pyx.B', SpikeProfile(PROF, 'spike_profile_cython', names=('t1', 't2')), 'B', sizes_quick=sizes_ri(1, 2),
       sizes_thorough=sizes_ri(1, 3), bound_text='N1,N2 <= 2 (quick) / <= 3 (thorough), RI in {False,True}')
