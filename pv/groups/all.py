"""Instantiates and registers every obligation group."""
from .base import register, KernelGroup, GROUPS
from ..contracts.isi import IsiProfile

PYB = 'pyspike/cython/python_backend.py'
PROF = 'pyspike/cython/cython_profiles.pyx'
DIST = 'pyspike/cython/cython_distances.pyx'


def sizes(lo, hi1, hi2=None):
    hi2 = hi1 if hi2 is None else hi2
    return [(a, b) for a in range(lo, hi1 + 1) for b in range(lo, hi2 + 1)]


def kernel(name, contract, strength, finder=(), shards=None, finder_contract=None, standin=None, **kw):
    g = KernelGroup(name, contract, strength, **kw)
    g.standin = standin
    g.finder_sizes = list(finder)
    if finder_contract is not None:
        g.finder_contract = finder_contract      # bounded counterexample search uses this (pairwise-form) contract
    g.shards = dict(shards or {})
    return register(g)


# ---- C01: ISI profile kernels
kernel('isi_py.P', IsiProfile(), 'P', finder=sizes(1, 3))
kernel('isi_pyx.P', IsiProfile(PROF, 'isi_profile_cython'), 'P', finder=sizes(1, 3))
kernel('isi_py.B', IsiProfile(), 'B', sizes_quick=sizes(1, 2), sizes_thorough=sizes(1, 3, 4),
       bound_text='N1,N2 <= 2 (quick) / N1<=3,N2<=4 (thorough); all real spike times')

# ---- C02: SPIKE kernel and its helpers
from ..contracts.spike import GetMinDist, DistAtT, SpikeProfile  # noqa

kernel('gmd_py.P', GetMinDist(), 'P', finder=[(n, s) for n in range(0, 4) for s in range(-1, n)])
kernel('gmd_prof_pyx.P', GetMinDist(PROF, 'get_min_dist_cython', with_n=True), 'P', finder=[(n, s) for n in range(0, 4) for s in range(-1, n)])
kernel('gmd_dist_pyx.P', GetMinDist(DIST, 'get_min_dist_cython', with_n=True), 'P', finder=[(n, s) for n in range(0, 4) for s in range(-1, n)])
for _nm, _rel in (('py', PYB), ('prof_pyx', PROF), ('dist_pyx', DIST)):
    kernel('dist_at_t_%s.P' % _nm, DistAtT(_rel), 'B', sizes_quick=[(False,), (True,)], sizes_thorough=[(False,), (True,)],
           bound_text='loop-free: complete for RI in {False, True}')
    GROUPS['dist_at_t_%s.P' % _nm].strength = 'P'
    GROUPS['dist_at_t_%s.P' % _nm].tasks = (lambda self_: (lambda tier: [('B', (False,)), ('B', (True,))]))(None)


def sizes_ri(lo, hi1, hi2=None):
    return [(a, b, ri) for (a, b) in sizes(lo, hi1, hi2) for ri in (False, True)]


_SPQ = sizes_ri(1, 2) + [(2, 3, False), (2, 3, True), (3, 2, False), (3, 2, True)]
_SPS = {(2, 3, False): 2, (2, 3, True): 2, (3, 2, False): 2, (3, 2, True): 2, (3, 3, False): 6, (3, 3, True): 6}
kernel('spike_py.B', SpikeProfile(), 'B', sizes_quick=_SPQ, sizes_thorough=sizes_ri(1, 3), shards=_SPS,
       bound_text='N1+N2 <= 5 (quick) / N1,N2 <= 3 (thorough), RI in {False,True}; all real spike times, MRTS >= 0')
kernel('spike_pyx.B', SpikeProfile(PROF, 'spike_profile_cython', names=('t1', 't2')), 'B', sizes_quick=_SPQ,
       sizes_thorough=sizes_ri(1, 3), shards=_SPS, bound_text='N1+N2 <= 5 (quick) / N1,N2 <= 3 (thorough), RI in {False,True}')

# ---- C03 / C04 / C16: coincidence window, SPIKE-Sync, order, directionality kernels
from ..contracts.sync import GetTau, DiscreteProfile, CoincidenceSingle, DirectionalityProfile, SinglePass  # noqa

TAU = 'pyspike/cython/cython_get_tau.pyx'
DIRPY = 'pyspike/cython/directionality_python_backend.py'
DIRPYX = 'pyspike/cython/cython_directionality.pyx'
_tau_finder = [(a, b, i, j) for a in range(0, 3) for b in range(0, 3) for i in range(-1, a) for j in range(-1, b)]
kernel('get_tau_py.P', GetTau(), 'P', finder=_tau_finder)
kernel('get_tau_pyx.P', GetTau(TAU), 'P', finder=_tau_finder)

_BT = 'N1+N2 <= 5 (quick; per-spike indicator and single-pass routines N1,N2 <= 3) / N1,N2 <= 3 (thorough), empty trains included; all real spike times, max_tau >= 0, MRTS >= 0'
for _nm, _c in (
        ('sync_py', DiscreteProfile()),
        ('sync_pyx', DiscreteProfile(PROF, 'coincidence_profile_cython')),
        ('single_py', CoincidenceSingle()),
        ('single_pyx', CoincidenceSingle(PROF, 'coincidence_single_profile_cython')),
        ('order_py', DiscreteProfile(DIRPY, 'spike_train_order_profile_python', kind='order')),
        ('order_pyx', DiscreteProfile(DIRPYX, 'spike_train_order_profile_cython', kind='order')),
        ('dir_py', DirectionalityProfile()),
        ('dir_pyx', DirectionalityProfile(DIRPYX, 'spike_directionality_profiles_cython')),
        ('syncval_pyx', SinglePass(DIST, 'coincidence_value_cython', 'sync')),
        ('orderval_pyx', SinglePass(DIRPYX, 'spike_train_order_cython', 'order')),
        ('dirval_pyx', SinglePass(DIRPYX, 'spike_directionality_cython', 'directionality'))):
    _heavy = _nm.startswith(('sync', 'order', 'dir_'))
    kernel(_nm + '.B', _c, 'B', sizes_quick=sizes(0, 2) + [(2, 3), (3, 2)] + ([] if _heavy else [(3, 3)]), sizes_thorough=sizes(0, 3), bound_text=_BT,
           shards=({(2, 3): 2, (3, 2): 2, (3, 3): 12} if _heavy else {(3, 3): 2}))

# ---- C09 / C11: add kernels
from ..contracts.add import AddPwc, AddDiscrete, AddPwl  # noqa

ADD = 'pyspike/cython/cython_add.pyx'
kernel('addpwc_py.P', AddPwc(), 'P', finder=sizes(1, 3))
kernel('addpwc_pyx.P', AddPwc(ADD, 'add_piece_wise_const_cython'), 'P', finder=sizes(1, 3))
_BA = 'pieces / events per operand <= 3 (quick) / <= 4 (thorough); all real breakpoints and values'
kernel('addpwc_py.B', AddPwc(), 'B', sizes_quick=sizes(1, 3), sizes_thorough=sizes(1, 4), bound_text=_BA)
kernel('addpwc_pyx.B', AddPwc(ADD, 'add_piece_wise_const_cython'), 'B', sizes_quick=sizes(1, 3), sizes_thorough=sizes(1, 4), bound_text=_BA)
kernel('adddisc_py.B', AddDiscrete(), 'B', sizes_quick=sizes(0, 3), sizes_thorough=sizes(0, 4), bound_text=_BA)
kernel('adddisc_pyx.B', AddDiscrete(ADD, 'add_discrete_function_cython'), 'B', sizes_quick=sizes(0, 3), sizes_thorough=sizes(0, 4), bound_text=_BA)
kernel('addpwl_py.B', AddPwl(), 'B', sizes_quick=sizes(1, 3), sizes_thorough=sizes(1, 4), bound_text=_BA)
kernel('addpwl_pyx.B', AddPwl(ADD, 'add_piece_wise_lin_cython'), 'B', sizes_quick=sizes(1, 3), sizes_thorough=sizes(1, 4), bound_text=_BA)

# ---- C10 / C11: function classes (methods)
from ..contracts import funcs as F  # noqa

_BF = 'number of pieces / events <= 3 (quick) / <= 4 (thorough); all real breakpoints, values, interval ends and times'


def _fsizes(hi, variants, lo=1):
    return [(n, v) for n in range(lo, hi + 1) for v in variants]


for _k, _I, _E, _P in (('pwc', F.PwcIntegral, F.PwcEval, F.PwcPlot), ('pwl', F.PwlIntegral, F.PwlEval, F.PwlPlot)):
    kernel('%s_integral.B' % _k, _I('integral'), 'B', sizes_quick=_fsizes(3, ['none', 'one']), sizes_thorough=_fsizes(4, ['none', 'one']), bound_text=_BF)
    kernel('%s_avrg.B' % _k, _I('avrg'), 'B', sizes_quick=_fsizes(3, ['none', 'one']) + _fsizes(2, ['list2']),
           sizes_thorough=_fsizes(4, ['none', 'one']) + _fsizes(3, ['list2']), bound_text=_BF)
    kernel('%s_call.B' % _k, _E(), 'B', sizes_quick=[(n,) for n in (1, 2, 3)], sizes_thorough=[(n,) for n in (1, 2, 3, 4)], bound_text=_BF)
    kernel('%s_plot.B' % _k, _P(), 'B', sizes_quick=[(n,) for n in (1, 2, 3)], sizes_thorough=[(n,) for n in (1, 2, 3, 4)], bound_text=_BF)
kernel('disc_integral.B', F.DiscIntegral('integral'), 'B', sizes_quick=_fsizes(3, ['none', 'one'], 0) + _fsizes(2, ['list2'], 0),
       sizes_thorough=_fsizes(4, ['none', 'one'], 0) + _fsizes(3, ['list2'], 0), bound_text=_BF)
kernel('disc_avrg.B', F.DiscIntegral('avrg'), 'B', sizes_quick=_fsizes(3, ['none', 'one'], 0) + _fsizes(2, ['list2'], 0),
       sizes_thorough=_fsizes(4, ['none', 'one'], 0) + _fsizes(3, ['list2'], 0), bound_text=_BF)
kernel('disc_plot.B', F.DiscPlot(), 'B', sizes_quick=[(n,) for n in (0, 1, 2, 3)], sizes_thorough=[(n,) for n in (0, 1, 2, 3, 4)], bound_text=_BF)

# ---- plumbing: real wrappers on formal terms (native, bounded in the number of trains)
from .base import NativeGroup  # noqa

_WR = [('pyspike/generic.py', f) for f in ('resolve_keywords', '_generic_profile_multi', '_generic_distance_multi', '_generic_distance_matrix')] + \
      [('pyspike/isi_distance.py', f) for f in ('isi_profile', 'isi_profile_bi', 'isi_profile_multi', 'isi_distance', 'isi_distance_bi', 'isi_distance_multi', 'isi_distance_matrix')] + \
      [('pyspike/spike_distance.py', f) for f in ('spike_profile', 'spike_profile_bi', 'spike_profile_multi', 'spike_distance', 'spike_distance_bi', 'spike_distance_multi', 'spike_distance_matrix')] + \
      [('pyspike/spike_sync.py', f) for f in ('spike_sync_profile', 'spike_sync_profile_bi', 'spike_sync_profile_multi', '_spike_sync_values', 'spike_sync', 'spike_sync_bi', 'spike_sync_multi', 'spike_sync_matrix')] + \
      [('pyspike/spike_directionality.py', f) for f in ('spike_directionality_values', '_spike_directionality_values_impl', 'spike_directionality', 'spike_directionality_matrix', 'spike_train_order_profile', 'spike_train_order_profile_bi', 'spike_train_order_profile_multi', '_spike_train_order_impl', 'spike_train_order', 'spike_train_order_bi', 'spike_train_order_multi')]
_BN = 'N <= %d trains (quick) / <= %d (thorough); every ordered index subset of size >= 2; unbounded in the train contents (kernels, classes abstract)'
register(NativeGroup('plumb.forms', dict(quick=[('forms', 3), ('forms_wide', 5), ('forms_wide', 6)], thorough=[('forms', 3), ('forms', 4), ('forms', 5), ('forms_wide', 6), ('forms_wide', 7)]),
                     _BN % (3, 5) + '; additionally N = 5, 6 (quick) / 6, 7 (thorough) trains with five selections each (whole list, reversed, rotated, all but one, a triple)', _WR))
register(NativeGroup('plumb.degenerate', dict(quick=[('degenerate', 2), ('degenerate', 3)], thorough=[('degenerate', 2), ('degenerate', 3), ('degenerate', 4)]),
                     _BN % (3, 4) + '; every pattern of empty / non-empty trains', _WR))
register(NativeGroup('plumb.many', dict(quick=[('forms_many', n) for n in (8, 9, 11, 13, 16, 17)], thorough=[('forms_many', n) for n in range(8, 34)]),
                     'N = 8, 9, 11, 13, 16, 17 trains (quick) / every N from 8 to 33 (thorough): whole list and one rotation, list and indices forms, default and MRTS keywords; unbounded in the train contents', _WR))
register(NativeGroup('plumb.near', dict(quick=[('near', 2), ('near', 3)], thorough=[('near', 2), ('near', 3)]),
                     _BN % (3, 3) + '; distinct trains whose spike times differ by a few 1e-9 (np.isclose / np.allclose would call them equal)', _WR))
register(NativeGroup('plumb.same_window', dict(quick=[('same_window', 2), ('same_window', 3)], thorough=[('same_window', 2), ('same_window', 3), ('same_window', 4)]),
                     _BN % (3, 4) + '; for one call every entry point of the SPIKE-Sync / order / directionality family hands the same (max_tau, MRTS) to the kernels', _WR))
register(NativeGroup('plumb.inplace', dict(quick=[('inplace', 2), ('inplace', 3)], thorough=[('inplace', 2), ('inplace', 3), ('inplace', 4)]),
                     _BN % (3, 4) + '; history: call, change a spike time of a train in place, call again - the second result is the one for the current spike times', _WR))
register(NativeGroup('plumb.repeated', dict(quick=[('repeated', 2), ('repeated', 3)], thorough=[('repeated', 2), ('repeated', 3), ('repeated', 4)]),
                     _BN % (3, 4) + '; lists in which a spike train occurs more than once (identical spike times), also next to trains without spikes', _WR))
register(NativeGroup('plumb.reconcile', dict(quick=[('reconcile', 2), ('reconcile', 3)], thorough=[('reconcile', 2), ('reconcile', 3), ('reconcile', 4)]), _BN % (3, 4), _WR))
register(NativeGroup('plumb.auto', dict(quick=[('auto', 2), ('auto', 3)], thorough=[('auto', 2), ('auto', 3), ('auto', 4)]), _BN % (3, 4), _WR))
register(NativeGroup('plumb.profile_avg', dict(quick=[('profile_avg', 2), ('profile_avg', 3)], thorough=[('profile_avg', 2), ('profile_avg', 3), ('profile_avg', 4)]),
                     _BN % (3, 4) + '; every emptiness pattern; whole recording, one sub-interval, list of sub-intervals', _WR))
register(NativeGroup('plumb.filter', dict(quick=[('filter', 2), ('filter', 3)], thorough=[('filter', 2), ('filter', 3), ('filter', 4)]),
                     'N <= 3 trains (quick) / 4 (thorough), <= 2 spikes per train; every 0/1 outcome of the per-spike indicator kernel; thresholds {0, k/(N-1), .3, .5, 1}',
                     [('pyspike/spike_sync.py', 'filter_by_spike_sync')]))
from . import relations  # noqa
from . import lemmas  # noqa

# ---- remaining functions: get_spikes_non_empty, class methods, reconcile, thresholds, merge
from ..contracts import misc as MI  # noqa

kernel('nonempty.P', MI.NonEmpty(), 'P', finder=[(0,), (1,), (2,)])
_MS = [(n,) for n in (1, 2, 3)]
_MS2 = [(a, b) for a in (1, 2) for b in (1, 2)]
for _k, _C in (('pwc', MI.PwcMethod), ('pwl', MI.PwlMethod), ('disc', MI.DiscMethod)):
    kernel('%s_mul.B' % _k, _C('mul_scalar'), 'B', sizes_quick=_MS, sizes_thorough=_MS, bound_text='<= 3 pieces / events')
    kernel('%s_copy.B' % _k, _C('copy'), 'B', sizes_quick=_MS, sizes_thorough=_MS, bound_text='<= 3 pieces / events')
    kernel('%s_add_fb.B' % _k, _C('add', 'fallback'), 'B', sizes_quick=_MS2, sizes_thorough=sizes(1, 3), bound_text='<= 2 (quick) / 3 (thorough) pieces per operand; fallback kernel inlined')
    kernel('%s_add_cy.B' % _k, _C('add', 'compiled'), 'B', sizes_quick=_MS2, sizes_thorough=sizes(1, 3), bound_text='<= 2 (quick) / 3 (thorough) pieces per operand; extracted Cython kernel inlined')
kernel('reconcile.B', MI.Reconcile(), 'B', sizes_quick=[(0, 1), (1, 1), (2, 1), (2, 2)], sizes_thorough=[(0, 1), (1, 1), (2, 1), (2, 2), (3, 2), (2, 2, 1)],
       bound_text='<= 2 trains with <= 2 spikes (quick), up to 3 trains / 3 spikes (thorough); arbitrary order, repeats and own edges')
kernel('merge.B', MI.Merge(), 'B', sizes_quick=[(0, 1), (1, 1), (2, 1), (2, 2)], sizes_thorough=[(0, 1), (1, 1), (2, 1), (2, 2), (3, 2), (2, 2, 1)],
       bound_text='<= 2 trains with <= 2 spikes (quick), up to 3 trains / 3 spikes (thorough)')
kernel('isilen.B', MI.IsiLengths(), 'B', sizes_quick=[(n,) for n in range(0, 4)], sizes_thorough=[(n,) for n in range(0, 5)], bound_text='<= 3 (quick) / 4 (thorough) spikes')
kernel('thresh.B', MI.DefaultThresh(), 'B', sizes_quick=[(0, 1), (1, 2), (2, 2), (3,)], sizes_thorough=[(0, 1), (1, 2), (2, 2), (3,), (3, 2), (1, 1, 2)],
       bound_text='<= 2 trains with <= 3 spikes (quick); 3 trains (thorough)')

import itertools as _it
_SM_Q = [(k, mp) for k in (1, 2) for m in (3, 4) for mp in _it.product((1, 2), repeat=m)]
_SM_T = [(k, mp) for k in (1, 2, 3) for m in (3, 4, 5) for mp in _it.product((1, 2, 3), repeat=m)]
kernel('disc_smooth.B', F.DiscSmooth(), 'B', sizes_quick=_SM_Q, sizes_thorough=_SM_T,
       bound_text='<= 4 entries, multiplicities in {1,2}, window k <= 2 (quick); <= 5 entries, multiplicities in {1,2,3}, k <= 3 (thorough); values symbolic')
kernel('psth.B', MI.Psth(), 'B', sizes_quick=[(1, 1, 1), (2, 2, 1), (3, 2, 1), (2, 0, 2)], sizes_thorough=[(1, 1, 1), (2, 2, 1), (3, 2, 1), (2, 0, 2), (3, 2, 2), (4, 2, 1), (2, 1, 1, 1)],
       bound_text='<= 3 bins, <= 2 trains with <= 2 spikes (quick); <= 4 bins / 3 trains (thorough); np.linspace / np.histogram as assumed contracts')

# ---- C10: vectorised evaluation; C09 / C10: histories over the real classes (drivers in pv/drivers.py)
_SEQ = [(n, m) for n in (1, 2, 3) for m in (1, 2)]
kernel('pwc_callseq.B', F.PwcEvalSeq(), 'B', sizes_quick=_SEQ, sizes_thorough=_SEQ + [(3, 3), (4, 2)], bound_text='<= 3 pieces, list of <= 2 times (quick); <= 4 pieces / 3 times (thorough)')
kernel('pwl_callseq.B', F.PwlEvalSeq(), 'B', sizes_quick=_SEQ, sizes_thorough=_SEQ + [(3, 3), (4, 2)], bound_text='<= 3 pieces, list of <= 2 times (quick); <= 4 pieces / 3 times (thorough)')
for _k in ('pwc', 'pwl'):
    kernel('%s_hist_eval.B' % _k, F.History('%s_scale_then_eval' % _k, _k), 'B', sizes_quick=[(1, 1), (2, 1), (2, 2)], sizes_thorough=[(1, 1), (2, 1), (2, 2), (3, 2)],
           bound_text='history evaluate(list) ; mul_scalar ; evaluate(list) vs fresh object; <= 2 pieces, <= 2 times (quick)')
    kernel('%s_hist_copy.B' % _k, F.History('%s_copy_independent' % _k, _k), 'B', sizes_quick=[(1,), (2,), (3,)], sizes_thorough=[(1,), (2,), (3,), (4,)],
           bound_text='history copy ; mul_scalar(original) ; <= 3 pieces')
    for _cfg in ('fallback', 'compiled'):
        kernel('%s_hist_acc_%s.B' % (_k, _cfg[:2]), F.History('%s_accumulate' % _k, _k, _cfg), 'B', sizes_quick=[(1, 1), (1, 2), (2, 1), (2, 2)],
               sizes_thorough=[(1, 1), (1, 2), (2, 1), (2, 2), (3, 2), (2, 3)],
               bound_text='history add ; mul_scalar ; add (same operand) then evaluate; <= 2 pieces per operand (quick) / 3 (thorough); %s kernel inlined' % _cfg)

# ---- C03 / C04: SPIKE-Sync and spike-train-order profile scans, inductive, adjacent form
from ..contracts.sync_p import SyncProfileP  # noqa
kernel('sync_py.P', SyncProfileP(), 'P', finder=sizes(0, 2) + [(2, 3), (3, 2), (3, 3)], finder_contract=DiscreteProfile())
kernel('sync_pyx.P', SyncProfileP(PROF, 'coincidence_profile_cython'), 'P', finder=sizes(0, 2) + [(2, 3), (3, 2), (3, 3)], finder_contract=DiscreteProfile(PROF, 'coincidence_profile_cython'))
kernel('order_py.P', SyncProfileP(DIRPY, 'spike_train_order_profile_python', kind='order', val='a'), 'P', finder=sizes(0, 2) + [(2, 3), (3, 2), (3, 3)],
       finder_contract=DiscreteProfile(DIRPY, 'spike_train_order_profile_python', kind='order'))
kernel('order_pyx.P', SyncProfileP(DIRPYX, 'spike_train_order_profile_cython', kind='order', val='a'), 'P', finder=sizes(0, 2) + [(2, 3), (3, 2), (3, 3)],
       finder_contract=DiscreteProfile(DIRPYX, 'spike_train_order_profile_cython', kind='order'))
from ..contracts.dir_p import DirProfileP  # noqa
kernel('dir_py.P', DirProfileP(), 'P', finder=sizes(0, 2) + [(2, 3), (3, 2), (3, 3)], finder_contract=DirectionalityProfile())
kernel('dir_pyx.P', DirProfileP(DIRPYX, 'spike_directionality_profiles_cython'), 'P', finder=sizes(0, 2) + [(2, 3), (3, 2), (3, 3)],
       finder_contract=DirectionalityProfile(DIRPYX, 'spike_directionality_profiles_cython'))
from ..contracts.spike_p import SpikeProfileP  # noqa
kernel('spike_py.P', SpikeProfileP(RI=False), 'P', standin='spike_py.B', finder=[(a, b, False) for (a, b) in sizes(1, 2)], finder_contract=SpikeProfile(), timeout_ms=60000)
kernel('spike_ri_py.P', SpikeProfileP(RI=True), 'P', standin='spike_py.B', finder=[(a, b, True) for (a, b) in sizes(1, 2)], finder_contract=SpikeProfile(), timeout_ms=60000)
kernel('spike_pyx.P', SpikeProfileP(PROF, 'spike_profile_cython', names=('t1', 't2'), RI=False), 'P', standin='spike_pyx.B',
       finder=[(a, b, False) for (a, b) in sizes(1, 2)], finder_contract=SpikeProfile(PROF, 'spike_profile_cython', names=('t1', 't2')), timeout_ms=60000)
kernel('spike_ri_pyx.P', SpikeProfileP(PROF, 'spike_profile_cython', names=('t1', 't2'), RI=True), 'P', standin='spike_pyx.B',
       finder=[(a, b, True) for (a, b) in sizes(1, 2)], finder_contract=SpikeProfile(PROF, 'spike_profile_cython', names=('t1', 't2')), timeout_ms=60000)
from ..contracts.add_p import AddPwlP, AddDiscreteP  # noqa
kernel('addpwl_py.P', AddPwlP(), 'P', standin='addpwl_py.B', finder=sizes(1, 3), finder_contract=AddPwl(), timeout_ms=60000)
kernel('addpwl_pyx.P', AddPwlP(ADD, 'add_piece_wise_lin_cython'), 'P', standin='addpwl_pyx.B', finder=sizes(1, 3),
       finder_contract=AddPwl(ADD, 'add_piece_wise_lin_cython'), timeout_ms=60000)
kernel('adddisc_py.P', AddDiscreteP(), 'P', standin='adddisc_py.B', finder=sizes(0, 3), finder_contract=AddDiscrete(), timeout_ms=60000)
kernel('adddisc_pyx.P', AddDiscreteP(ADD, 'add_discrete_function_cython'), 'P', standin='adddisc_pyx.B', finder=sizes(0, 3),
       finder_contract=AddDiscrete(ADD, 'add_discrete_function_cython'), timeout_ms=60000)
from ..contracts.misc import Poisson  # noqa
_PQ = [(f, n, k) for f in ('pair', 'scalar') for n in (1, 2, 3) for k in (0, 1, 2)]
kernel('poisson.B', Poisson(), 'B', sizes_quick=_PQ, sizes_thorough=_PQ + [(f, n, 3) for f in ('pair', 'scalar') for n in (1, 2, 3, 4)],
       bound_text='N = max(1,int(1.2*rate*T)) <= 3 (quick) / 4 (thorough) initial draws, refill loop <= 2 / 3 iterations; every outcome of the draws (reals >= 0), both interval forms')
for _k in ('pwc', 'pwl', 'disc'):
    kernel('%s_hist_query.B' % _k, F.History('%s_query_add_query' % _k, _k), 'B', sizes_quick=[(1, 1), (1, 2), (2, 1), (2, 2)], sizes_thorough=[(1, 1), (1, 2), (2, 1), (2, 2), (3, 2), (2, 3)],
           bound_text='history integral/avrg(a,b) ; add ; mul_scalar ; integral/avrg(a,b) vs a fresh object with the same content; <= 2 pieces / events per operand (quick) / 3 (thorough), symbolic interval')
kernel('thresh_trains.B', MI.DefaultThreshTrains(), 'B', sizes_quick=[(), (0,), (0, 1), (1, 0), (1, 2), (2, 0, 1)], sizes_thorough=[(), (0,), (0, 1), (1, 0), (1, 2), (2, 0, 1), (3, 2), (0, 0, 2)],
       bound_text='<= 3 trains with <= 2 spikes (quick) / 3 (thorough), trains without spikes included')
from ..contracts.single_p import CoincidenceSingleP  # noqa
kernel('single_py.P', CoincidenceSingleP(), 'P', standin='single_py.B', finder=sizes(0, 2) + [(2, 3), (3, 2), (3, 3)], finder_contract=CoincidenceSingle(), timeout_ms=60000)
kernel('single_pyx.P', CoincidenceSingleP(PROF, 'coincidence_single_profile_cython'), 'P', standin='single_pyx.B', finder=sizes(0, 2) + [(2, 3), (3, 2), (3, 3)],
       finder_contract=CoincidenceSingle(PROF, 'coincidence_single_profile_cython'), timeout_ms=60000)
from ..contracts.dist_p import IsiDistanceP, SpikeDistanceP  # noqa
kernel('isidist_pyx.P', IsiDistanceP(), 'P', standin='isidist_pyx.B', timeout_ms=60000)
kernel('spikedist_pyx.P', SpikeDistanceP(RI=False), 'P', standin='spikedist_pyx.B', timeout_ms=60000)
kernel('spikedist_ri_pyx.P', SpikeDistanceP(RI=True), 'P', standin='spikedist_pyx.B', timeout_ms=60000)
from ..contracts.value_p import SinglePassValueP  # noqa
kernel('syncval_pyx.P', SinglePassValueP(DIST, 'coincidence_value_cython', 'sync'), 'P', standin='syncval_pyx.B', timeout_ms=60000)
kernel('orderval_pyx.P', SinglePassValueP(DIRPYX, 'spike_train_order_cython', 'order'), 'P', standin='orderval_pyx.B', timeout_ms=60000)
kernel('dirval_pyx.P', SinglePassValueP(DIRPYX, 'spike_directionality_cython', 'dir'), 'P', standin='dirval_pyx.B', timeout_ms=60000)
from ..contracts.funcs_p import IntegralP, EvaluateP, AvrgP, PlottableP, MethodP, DiscPlottableP  # noqa
for _k in ('pwc', 'pwl', 'disc'):
    for _v in ('none', 'one'):
        kernel('%s_integral_%s.P' % (_k, _v), IntegralP(_k, _v), 'P', standin='%s_integral.B' % _k, timeout_ms=60000)
for _k in ('pwc', 'pwl'):
    kernel('%s_call.P' % _k, EvaluateP(_k), 'P', standin='%s_call.B' % _k, timeout_ms=60000)
for _k in ('pwc', 'pwl', 'disc'):
    for _v in ('none', 'one', 'list2'):
        kernel('%s_avrg_%s.P' % (_k, _v), AvrgP(_k, _v), 'P', standin='%s_avrg.B' % _k, timeout_ms=60000)
for _k in ('pwc', 'pwl'):
    kernel('%s_plot.P' % _k, PlottableP(_k), 'P', standin='%s_plot.B' % _k, timeout_ms=60000)
for _k in ('pwc', 'pwl', 'disc'):
    kernel('%s_mul.P' % _k, MethodP(_k, 'mul_scalar'), 'P', standin='%s_mul.B' % _k, timeout_ms=60000)
    kernel('%s_copy.P' % _k, MethodP(_k, 'copy'), 'P', standin='%s_copy.B' % _k, timeout_ms=60000)
    kernel('%s_add_fb.P' % _k, MethodP(_k, 'add', 'fallback'), 'P', standin='%s_add_fb.B' % _k, timeout_ms=60000)
    kernel('%s_add_cy.P' % _k, MethodP(_k, 'add', 'compiled'), 'P', standin='%s_add_cy.B' % _k, timeout_ms=60000)
kernel('disc_plot.P', DiscPlottableP(), 'P', standin='disc_plot.B', timeout_ms=60000)
