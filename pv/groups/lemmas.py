"""Lemma groups (L): code-free facts over the spec functions / contracts, discharged like obligations."""
import time
import z3
from ..sym import *  # noqa
from .base import Group, register
from .. import spec, solve
from ..sym import State
from ..harness import in_array
from ..contracts import sync as SY, spike as SP


class LemmaGroup(Group):
    strength = 'L'

    def __init__(self, name, lemmas, note=''):
        self.name = name
        self.lemmas = lemmas            # [(name, builder)] ; builder() -> (hyps, goal)
        self.bound_text = ''
        self.functions = []
        self.note = note

    def tasks(self, tier):
        return [(n,) for n, _ in self.lemmas]

    def generate(self, task, known=()):
        reset_fresh()
        name = task[0]
        b = [f for n, f in self.lemmas if n == name][0]
        hyps, goal = b()
        hyps = [h for h in hyps if h is not True]
        if goal is True:
            goal = z3.BoolVal(True)
        nm = "%s:%s" % (self.name, name)
        jobs = [dict(name=nm, subgoals=[name], smt=solve.to_smt2(hyps, goal), timeout_ms=60000, portfolio=True, cache=True,
                     want_model=True, group=self.name, task=task, kind='lemma'),
                # vacuity canary of the lemma's hypotheses
                dict(name=nm + '.canary', subgoals=[name + '.canary'], smt=solve.to_smt2(hyps, z3.BoolVal(False)), timeout_ms=3000,
                     portfolio=False, cache=False, want_model=False, group=self.name, task=task, kind='canary')]
        return jobs, dict(lemma=name)


R = z3.Real


def reals(names):
    return [R(n) for n in names.split()]


# ---------------------------------------------------------------------------------------------
def lem_cover():
    """sorted train, interval g covers [xl,xr] with xl<xr  =>  no spike strictly inside (xl,xr)"""
    st = State()
    N = z3.Int('N')
    S = st.acc(in_array(st, 's', N, 'P'))
    g, i = z3.Int('g'), z3.Int('i')
    xl, xr = reals('xl xr')
    hyps = [N >= 1, spec.sorted_strict(S, N), -1 <= g, g <= N - 1, xl < xr, spec.covers(S, g, xl, xr), 0 <= i, i < N]
    return hyps, z3.Not(z3.And(xl < S[i], S[i] < xr))


def lem_ratio_range():
    v1, v2, M = reals('v1 v2 M')
    r = spec.ratio(v1, v2, M)
    return [v1 > 0, v2 > 0, M >= 0], z3.And(r >= 0, r <= 1)


def lem_ratio_sym():
    v1, v2, M = reals('v1 v2 M')
    return [v1 > 0, v2 > 0, M >= 0], spec.ratio(v1, v2, M) == spec.ratio(v2, v1, M)


def lem_ratio_scale():
    """C08: the ISI ratio is invariant under a common positive scaling of both intervals and MRTS"""
    v1, v2, M, lam = reals('v1 v2 M lam')
    return [v1 > 0, v2 > 0, M >= 0, lam > 0], spec.ratio(lam * v1, lam * v2, lam * M) == spec.ratio(v1, v2, M)


def lem_ratio_identity():
    v1, M = reals('v1 M')
    return [v1 > 0, M >= 0], spec.ratio(v1, v1, M) == 0


def lem_ratio_mrts_mono():
    v1, v2, M, M2 = reals('v1 v2 M M2')
    return [v1 > 0, v2 > 0, M >= 0, M <= M2], spec.ratio(v1, v2, M2) <= spec.ratio(v1, v2, M)


def lem_ratio_mrts_zero():
    v1, v2 = reals('v1 v2')
    return [v1 > 0, v2 > 0], spec.ratio(v1, v2, 0) == z3.If(v1 >= v2, (v1 - v2) / v1, (v2 - v1) / v2)


def lem_ratio_mrts_small():
    v1, v2, M = reals('v1 v2 M')
    return [v1 > 0, v2 > 0, M >= 0, M <= v1, M <= v2], spec.ratio(v1, v2, M) == spec.ratio(v1, v2, 0)


def _D(ri):
    i1, i2, s1, s2, M = reals('isi1 isi2 s1 s2 M')
    return (i1, i2, s1, s2, M), split(SP.D(i1, i2, s1, s2, M, ri))[0]


def lem_D_sym(ri):
    def f():
        (i1, i2, s1, s2, M), d = _D(ri)
        d2 = split(SP.D(i2, i1, s2, s1, M, ri))[0]
        return [i1 > 0, i2 > 0, s1 >= 0, s2 >= 0, M >= 0], d == d2
    return f


def lem_D_nonneg(ri):
    def f():
        (i1, i2, s1, s2, M), d = _D(ri)
        return [i1 > 0, i2 > 0, s1 >= 0, s2 >= 0, M >= 0], d >= 0
    return f


def lem_D_zero(ri):
    def f():
        (i1, i2, s1, s2, M), d = _D(ri)
        return [i1 > 0, i2 > 0, s1 == 0, s2 == 0, M >= 0], d == 0
    return f


def lem_D_mrts_mono(ri):
    def f():
        (i1, i2, s1, s2, M), d = _D(ri)
        M2 = R('M2')
        d2 = split(SP.D(i1, i2, s1, s2, M2, ri))[0]
        return [i1 > 0, i2 > 0, s1 >= 0, s2 >= 0, M >= 0, M <= M2], d2 <= d
    return f


def lem_D_mrts_small(ri):
    def f():
        (i1, i2, s1, s2, M), d = _D(ri)
        d0 = split(SP.D(i1, i2, s1, s2, 0, ri))[0]
        return [i1 > 0, i2 > 0, s1 >= 0, s2 >= 0, M >= 0, M <= i1, M <= i2], d == d0
    return f


# ---- window lemmas -------------------------------------------------------------------------
def lem_interp_form():
    a, b, t = reals('a b t')
    py = z3.If(t < rmin(a, b), rmin(a, b), z3.If(t > b, b, t))                       # python_backend.Interpolate
    cy = z3.If(z3.And(t < a, a < b), a, z3.If(z3.And(t < b, b <= a), b, z3.If(t > b, b, t)))   # cython_get_tau.Interpolate
    return [], z3.And(py == SY.Interp(a, b, t), cy == SY.Interp(a, b, t))


def lem_interp_le_b():
    a, b, t = reals('a b t')
    return [], SY.Interp(a, b, t) <= b


def lem_interp_mono():
    a, b, t, a2, b2, t2 = reals('a b t a2 b2 t2')
    return [a <= a2, b <= b2, t <= t2], SY.Interp(a, b, t) <= SY.Interp(a2, b2, t2)


def lem_interp_zero():
    a, b, t = reals('a b t')
    return [a > 0, b > 0, t <= rmin(a, b)], SY.Interp(a, b, t) == rmin(a, b)


def _tau_setup():
    st = State()
    N1, N2, i, j = z3.Int('N1'), z3.Int('N2'), z3.Int('i'), z3.Int('j')
    S1 = st.acc(in_array(st, 's1', N1, 'P'))
    S2 = st.acc(in_array(st, 's2', N2, 'P'))
    lim, M = reals('lim M')
    hyps = [N1 >= 1, N2 >= 1, spec.sorted_strict(S1), spec.sorted_strict(S2), 0 <= i, i < N1, 0 <= j, j < N2, lim > 0, M >= 0]
    return S1, S2, i, j, lim, M, hyps


def lem_tau_facing():
    """the window of a pair is at most half of each of the two ISIs facing the other spike => a coincident pair is
    adjacent: no spike of either train lies strictly between the two (C03: marks of the merged scan = pairwise definition)"""
    S1, S2, i, j, lim, M, hyps = _tau_setup()
    tau = SY.tau_spec(S1, S2, i, j, lim, M)
    k = z3.Int('k')
    hyps += [z3.If(S1[i] >= S2[j], S1[i] - S2[j], S2[j] - S1[i]) < tau, 0 <= k]
    lo, hi = rmin(S1[i], S2[j]), rmax(S1[i], S2[j])
    return hyps, z3.And(z3.Implies(k < toI(S1.n), z3.Not(z3.And(lo < S1[k], S1[k] < hi))),
                        z3.Implies(k < toI(S2.n), z3.Not(z3.And(lo < S2[k], S2[k] < hi))))


def lem_tau_one_to_one():
    """a spike cannot be coincident with two different spikes of the other train"""
    S1, S2, i, j, lim, M, hyps = _tau_setup()
    j2 = z3.Int('j2')
    ab = lambda x, y: z3.If(x >= y, x - y, y - x)
    hyps += [0 <= j2, j2 < toI(S2.n), j2 != j, ab(S1[i], S2[j]) < SY.tau_spec(S1, S2, i, j, lim, M)]
    return hyps, z3.Not(ab(S1[i], S2[j2]) < SY.tau_spec(S1, S2, i, j2, lim, M))


def lem_adjacent_complete():
    """bridge between the adjacent form proved for the scans and the pairwise definition of C03: a train-1 spike i that
    lies strictly between the train-2 spikes j and j+1 can only be coincident with j or with j+1"""
    S1, S2, i, j, lim, M, hyps = _tau_setup()
    j2 = z3.Int('j2')
    ab = lambda x, y: z3.If(x >= y, x - y, y - x)
    hyps += [S2[j] < S1[i], z3.Or(j == toI(S2.n) - 1, S1[i] < S2[j + 1]), 0 <= j2, j2 < toI(S2.n),
             ab(S1[i], S2[j2]) < SY.tau_spec(S1, S2, i, j2, lim, M)]
    return hyps, z3.Or(j2 == j, j2 == j + 1)


def lem_adjacent_next_event():
    """... and if it is coincident with the following spike j+1, that spike is the very next event of the merged scan
    (no train-1 spike at or before it), so the scan does mark the pair"""
    S1, S2, i, j, lim, M, hyps = _tau_setup()
    hyps += [S1[i] < S2[j], z3.Or(j == 0, S2[j - 1] < S1[i]), S2[j] - S1[i] < SY.tau_spec(S1, S2, i, j, lim, M), i < toI(S1.n) - 1]
    return hyps, S1[i + 1] > S2[j]


def lem_tau_cap():
    S1, S2, i, j, lim, M, hyps = _tau_setup()
    return hyps, SY.tau_spec(S1, S2, i, j, lim, M) <= lim / 2


def lem_tau_mono_limit():
    S1, S2, i, j, lim, M, hyps = _tau_setup()
    lim2 = R('lim2')
    return hyps + [lim <= lim2], SY.tau_spec(S1, S2, i, j, lim, M) <= SY.tau_spec(S1, S2, i, j, lim2, M)


def lem_tau_mono_mrts():
    S1, S2, i, j, lim, M, hyps = _tau_setup()
    M2 = R('M2')
    return hyps + [M <= M2], SY.tau_spec(S1, S2, i, j, lim, M) <= SY.tau_spec(S1, S2, i, j, lim, M2)


def lem_tau_mrts_zero():
    """MRTS = 0: half of the smallest of the four adjacent ISIs (missing neighbour = limit)"""
    S1, S2, i, j, lim, M, hyps = _tau_setup()
    mP1, mF1, mP2, mF2 = SY.half_isis(S1, S2, i, j, lim)
    return hyps, SY.tau_spec(S1, S2, i, j, lim, 0) == rmin(rmin(rmin(mP1, mF1), rmin(mP2, mF2)), lim / 2)


def lem_limit_mono():
    """effective limit min(T, 2 max_tau) is monotone in max_tau > 0 and None/0 is the largest"""
    t0, t1, a, b = reals('t0 t1 a b')
    return [t0 < t1, a > 0, a <= b], z3.And(SY.limit_of(a, t0, t1) <= SY.limit_of(b, t0, t1), SY.limit_of(b, t0, t1) <= SY.limit_of(0, t0, t1),
                                            SY.limit_of(a, t0, t1) / 2 <= a)


def lem_coinc_sym():
    """coincidence of a pair does not depend on which train is called first (strictly different spike times)"""
    S1, S2, i, j, lim, M, hyps = _tau_setup()
    return hyps + [S1[i] != S2[j]], SY.tau_spec(S1, S2, i, j, lim, M) == SY.tau_spec(S2, S1, j, i, lim, M)


register(LemmaGroup('lemmas.cover', [('covers_imply_no_spike_inside', lem_cover)]))
register(LemmaGroup('lemmas.range', [('ratio_in_0_1', lem_ratio_range), ('D_nonneg', lem_D_nonneg(False)), ('D_RI_nonneg', lem_D_nonneg(True)),
                                     ('D_zero_at_shared_spike', lem_D_zero(False)), ('D_RI_zero_at_shared_spike', lem_D_zero(True)),
                                     ('ratio_identity', lem_ratio_identity)]))
register(LemmaGroup('lemmas.symmetry', [('ratio_symmetric', lem_ratio_sym), ('ratio_scale_invariant', lem_ratio_scale), ('D_symmetric', lem_D_sym(False)), ('D_RI_symmetric', lem_D_sym(True)),
                                        ('window_symmetric', lem_coinc_sym)]))
register(LemmaGroup('lemmas.window', [('interpolate_py_pyx_spec_equal', lem_interp_form), ('interp_le_b', lem_interp_le_b),
                                      ('interp_monotone', lem_interp_mono), ('interp_small_t', lem_interp_zero),
                                      ('coincident_pairs_are_adjacent', lem_tau_facing), ('coincidence_one_to_one', lem_tau_one_to_one),
                                      ('adjacent_form_is_pairwise', lem_adjacent_complete), ('adjacent_partner_is_next_event', lem_adjacent_next_event),
                                      ('window_le_half_limit', lem_tau_cap), ('window_monotone_in_limit', lem_tau_mono_limit),
                                      ('limit_monotone_in_max_tau', lem_limit_mono), ('window_mrts_zero', lem_tau_mrts_zero)]))
register(LemmaGroup('lemmas.mrts', [('ratio_nonincreasing_in_MRTS', lem_ratio_mrts_mono), ('ratio_MRTS_zero', lem_ratio_mrts_zero),
                                    ('ratio_MRTS_below_isis', lem_ratio_mrts_small), ('D_nonincreasing_in_MRTS', lem_D_mrts_mono(False)),
                                    ('D_RI_nonincreasing_in_MRTS', lem_D_mrts_mono(True)), ('D_MRTS_below_isis', lem_D_mrts_small(False)),
                                    ('D_RI_MRTS_below_isis', lem_D_mrts_small(True)), ('window_nondecreasing_in_MRTS', lem_tau_mono_mrts)]))
