"""Obligation groups. A group is the unit the registry maps properties to:
     kernel group  = one real function under one sidecar contract, in P (inductive) and/or B(k) mode
     lemma group   = code-free lemmas over spec functions / contracts (L)
     native group  = bounded plumbing harness executed under /venv/bin/python with formal terms (B(N))
Each group yields tasks (picklable); a task is generated into solver jobs inside a worker process."""
import time
import traceback
import z3
from .. import harness, solve, source
from ..engine import Unsupported, Unbound
from ..sym import *  # noqa

GROUPS = {}


def register(g):
    GROUPS[g.name] = g
    return g


class Group(object):
    name = None
    strength = 'P'          # P | L | B
    functions = ()          # [(rel, func)]
    bound_text = ''
    assumptions = ()

    def tasks(self, tier):
        return []

    def generate(self, task):
        raise NotImplementedError

    def describe(self):
        fs = []
        for rel, fn, cls in self.func_list():
            try:
                sha = source.module(rel).sha(fn, cls)
            except Exception as ex:  # function vanished
                sha = 'missing: %s' % ex
            fs.append(dict(file=rel, function=(cls + '.' if cls else '') + fn, source_sha256_16=sha))
        return dict(group=self.name, strength=self.strength, bound=self.bound_text, functions=fs)

    def func_list(self):
        return [(f[0], f[1], f[2] if len(f) > 2 else None) for f in self.functions]


def merge_by_hyp(obls, prefix, timeout_ms, portfolio=True, cache=True):
    """one solver job per distinct hypothesis set; sub-goals are named Booleans so a model tells which failed"""
    groups = {}
    order = []
    for n_, o in enumerate(obls):
        key = tuple(h.get_id() if is_z3(h) else id(h) for h in o.hyp)
        if key not in groups:
            groups[key] = (o.hyp, [])
            order.append(key)
        groups[key][1].append((n_, o))
    jobs = []
    for gi, key in enumerate(order):
        hyp, items = groups[key]
        s = z3.Solver()
        for h in hyp:
            s.add(h)
        names = []
        flags = []
        for n_, o in items:
            g = o.goal
            if g is True:
                g = z3.BoolVal(True)
            if g is False:
                g = z3.BoolVal(False)
            nm = "%s#%d" % (o.name, n_)
            fl = z3.Bool("goal!%d" % n_)
            s.add(fl == g)
            names.append(nm)
            flags.append(fl)
        s.add(z3.Not(z3.And(*flags)) if len(flags) > 1 else z3.Not(flags[0]))
        jobs.append(dict(name="%s:path%d" % (prefix, gi), smt=s.to_smt2(), timeout_ms=timeout_ms, portfolio=portfolio,
                         cache=cache, want_model=True, subgoals=names, flagnames=["goal!%d" % n_ for n_, _ in items],
                         kinds=[o.kind for _, o in items]))
    return jobs


SHARD = [None]


def solve_inline(obls, facts, timeout_ms, done, backend, keep_sat):
    """incremental discharge: one solver per distinct hypothesis list, push/pop per goal. Fills `done`
    {obligation index: result dict} for valid goals (and for refuted ones when keep_sat)."""
    groups = {}
    order = []
    for n_, o in enumerate(obls):
        if n_ in done:
            continue
        if SHARD[0] is not None and n_ % SHARD[0][1] != SHARD[0][0]:
            done[n_] = dict(skip=True)          # belongs to another shard of this task
            continue
        key = tuple(h.get_id() if is_z3(h) else id(h) for h in o.hyp)
        if key not in groups:
            groups[key] = (o.hyp, [])
            order.append(key)
        groups[key][1].append((n_, o))
    for key in order:
        hyp, items = groups[key]
        hyps = list(hyp) + list(facts)
        for n_, o in items:
            g = o.goal
            if g is True or (is_z3(g) and z3.is_true(g)):
                done[n_] = dict(result='unsat', time=0.0, backend='syntactic', cached=False, model=None, reason=None)
                continue
            if g is False:
                g = z3.BoolVal(False)
            s = z3.Solver()          # fresh solver per goal: the non-incremental core is much faster on QF_NRA
            s.set('timeout', int(timeout_ms))
            for h in hyps:
                s.add(h)
            s.add(z3.Not(g))
            t = time.time()
            r = str(s.check())
            dt = time.time() - t
            if r == 'unsat':
                done[n_] = dict(result='unsat', time=dt, backend=backend, cached=False, model=None, reason=None)
            elif r == 'sat' and keep_sat:
                done[n_] = dict(result='sat', time=dt, backend=backend, cached=False, model=solve._model_dict(s.model()),
                                reason=None, smt=s.to_smt2())


class KernelGroup(Group):
    """one function under one contract"""

    def __init__(self, name, contract, strength, sizes_quick=(), sizes_thorough=(), bound_text='', timeout_ms=30000,
                 assumptions=(), carve=None):
        self.name = name
        self.contract = contract
        self.strength = strength
        self.sizes = dict(quick=list(sizes_quick), thorough=list(sizes_thorough))
        self.bound_text = bound_text
        self.timeout_ms = timeout_ms
        self.inline_timeout_ms = 15000
        self.shards = {}          # size -> number of worker processes the obligations of that size are spread over
        self.functions = [(contract.rel, contract.func, contract.cls)]
        self.assumptions = tuple(assumptions)

    def tasks(self, tier):
        if self.strength == 'P':
            return [('P', None)]
        out = []
        for sz in self.sizes[tier]:
            ns = self.shards.get(tuple(sz), 1)
            if ns == 1:
                out.append(('B', sz))
            else:
                out.extend(('B', sz, k, ns) for k in range(ns))
        return out

    def generate(self, task, known=()):
        mode, size = task[0], task[1]
        shard = (task[2], task[3]) if len(task) > 2 else None
        c = self.contract
        c.known = tuple(known)
        t = time.time()
        prefix = "%s%s" % (self.name, '' if size is None else str(tuple(size)).replace(' ', ''))
        if mode == 'P':
            obls, stats = harness.function_obligations(c, mode, size)
            jobs = harness.jobs_from(obls, prefix, timeout_ms=self.timeout_ms, portfolio=True)
            for j in jobs:
                j['subgoals'] = [j['name'].split(':', 1)[1]]
                if j['kind'] == 'canary':
                    # vacuity guard: `False` must NOT be provable on at least one path of every class
                    j['timeout_ms'] = 3000
                    j['portfolio'] = False
                    j['cache'] = False
                    j['want_model'] = False
        else:
            # bounded mode: quantifier-free goals, solved incrementally right here (one solver per path, push/pop
            # per goal).  First pass with opaque spec helpers where the contract offers them (sound weakening);
            # what stays open is re-solved with the full definitions, and what is still open after that is
            # exported as a job for the portfolio.
            done = {}
            obls = None
            SHARD[0] = shard
            if getattr(c, 'opaque', None) is not None:
                c.opaque(True)
                try:
                    obls, stats = harness.function_obligations(c, mode, size)
                    solve_inline(obls, c.extra_facts(), 15000, done, 'z3-5.1(py)+opaque-spec', keep_sat=False)
                finally:
                    c.opaque(False)
                if len(done) < len(obls):
                    obls = None        # something stayed open: regenerate with the full definitions
            if obls is None:
                obls, stats = harness.function_obligations(c, mode, size)
                solve_inline(obls, [], self.inline_timeout_ms, done, 'z3-5.1(py)', keep_sat=True)
            jobs = []
            for n_, o in enumerate(obls):
                nm = "%s:%s#%d" % (prefix, o.name, n_)
                if n_ in done and not done[n_].get('skip'):
                    jobs.append(dict(name=nm, subgoals=[nm.split(':', 1)[1]], presolved=done[n_], kinds=[o.kind]))
            rest = [o for n_, o in enumerate(obls) if n_ not in done]
            SHARD[0] = None
            if rest:
                more = merge_by_hyp(rest, prefix + '.open', max(self.timeout_ms, 90000))
                jobs.extend(more)
        for j in jobs:
            j['group'] = self.name
            j['task'] = task
        stats['gen_s'] = round(time.time() - t, 2)
        stats['obligations'] = len(obls)
        return jobs, stats


def compile_known(known):
    """known-finding predicates travel as source text (picklable) and are compiled where they are used"""
    out = []
    for k in known:
        if callable(k):
            out.append(k)
        elif k[0] == 'carve':
            from ..decide import carve_fn
            out.append((carve_fn(k[1]), carve_fn(k[2]) if len(k) > 2 and k[2] else None))
        elif k[0] == 'native':
            out.append(eval("lambda d: " + k[1], {}))
        elif k[0] == 'native_pinned':
            out.append(k)
    return out


def gen_worker(arg):
    gname, task, known = arg
    known = compile_known(known)
    g = GROUPS[gname]
    try:
        jobs, stats = g.generate(task, known) if known else g.generate(task)
        return dict(group=gname, task=task, jobs=jobs, stats=stats, error=None)
    except (Unsupported, Unbound) as ex:
        return dict(group=gname, task=task, jobs=[], stats={}, error="%s: %s" % (type(ex).__name__, ex), undecided=True)
    except Exception:
        return dict(group=gname, task=task, jobs=[], stats={}, error=traceback.format_exc(), crash=True)


class NativeGroup(Group):
    """bounded plumbing harness: the real wrappers executed on formal terms (pv/native), one 'obligation' per
    (entry point, call form, keyword class, configuration) class, discharged when every scenario of the class passes"""
    strength = 'B'

    def __init__(self, name, families, bound_text, functions=()):
        self.name = name
        self.families = families            # tier -> [(family, n)]
        self.bound_text = bound_text
        self.functions = list(functions)

    def tasks(self, tier):
        return list(self.families[tier])

    def generate(self, task, known=()):
        from ..native import driver
        fam, n = task
        t = time.time()
        pinned = [k[1] for k in known if isinstance(k, tuple) and k[0] == 'native_pinned']
        known = [k for k in known if callable(k)]
        res = driver.run_native(dict(op='family', family=fam, n=n, pinned=pinned))
        jobs = []
        fails_by_cls = {}
        known_hits = 0
        for f in res['failures']:
            if any(k(f['desc']) for k in known):
                known_hits += 1
                continue
            fails_by_cls.setdefault(f['cls'], f)
        for cls, (tot, nfail) in sorted(res['classes'].items()):
            nm = "%s:%s[N=%d]:%s" % (self.name, fam, n, cls)
            if cls in fails_by_cls:
                f = fails_by_cls[cls]
                w = dict(kind='native', family=fam, args=f['args'], desc=f['desc'],
                         summary="%s %s: %s" % (f['kind'], json_short(f['desc']), f['detail'][:300]))
                pres = dict(result='sat', time=0.0, backend='native-formal', cached=False, model=None, reason=f['detail'][:500], witness=w)
            else:
                pres = dict(result='unsat', time=0.0, backend='native-formal', cached=False, model=None, reason=None)
            jobs.append(dict(name=nm, subgoals=[nm.split(':', 1)[1]], presolved=pres, group=self.name, task=task, evaluations=tot))
        stats = dict(family=fam, n=n, scenarios=res['scenarios'], classes=len(res['classes']), known_finding_hits=known_hits,
                     samples=res.get('samples', [])[:2], gen_s=round(time.time() - t, 2))
        return jobs, stats


def json_short(d):
    return "%s(%s) indices=%s empty=%s kw=%s %s" % (d.get('entry'), d.get('form'), d.get('indices'), d.get('empty'), d.get('kwargs'),
                                                   'compiled-stubs' if d.get('compiled') else 'fallback')
