"""Symbolic executor / verification-condition generator over the Python AST of the real code.

Two modes share one interpreter:
  P  inductive: integers, lengths and arrays are symbolic; every loop is cut at its sidecar invariant
  B  bounded  : container sizes are concrete, loops are unrolled by evaluating their guards; reals stay
                symbolic, so one run covers all orderings and ties of that size
Obligations (safety, loop entry / preservation, callee preconditions, asserts) are collected in
`Engine.obls`; postconditions are added by the harness (pv.harness) for every returning path.
"""
import ast
from fractions import Fraction
import z3
from .sym import *  # noqa
from . import sym


class Unsupported(Exception):
    """construct outside the modelled subset -> the group is undecided (exit 2), never a violation"""


class Unbound(Exception):
    """sidecar contract refers to a name the current source does not define"""


class ForkRequest(Exception):
    """bounded mode: a concrete truth value is needed for a symbolic condition that the path condition does not
    decide; the enclosing statement is re-executed under both outcomes"""

    def __init__(self, cond):
        Exception.__init__(self, "fork")
        self.cond = cond


class PyRaise(Exception):
    """a modelled Python exception raised inside an expression (TypeError on subscripting a number, ImportError)"""

    def __init__(self, name):
        Exception.__init__(self, name)
        self.name = name


class FuncRef(object):
    """function of another repository module bound by an import statement"""

    def __init__(self, rel, name):
        self.rel, self.name = rel, name


CLASS_HOME = {'SpikeTrain': 'pyspike/SpikeTrain.py', 'PieceWiseConstFunc': 'pyspike/PieceWiseConstFunc.py',
              'PieceWiseLinFunc': 'pyspike/PieceWiseLinFunc.py', 'DiscreteFunc': 'pyspike/DiscreteFunc.py'}


TRUNC = z3.Function('trunc_toward_zero', R, I)


class Arr2(object):
    """2-D numpy array with a concrete number of rows: a list of 1-D row arrays of equal length"""
    __slots__ = ('rows', 'n')

    def __init__(self, rows, n):
        self.rows, self.n = rows, n


class Obl(object):
    __slots__ = ("name", "hyp", "goal", "kind", "meta")

    def __init__(self, name, hyp, goal, kind, meta=None):
        self.name, self.hyp, self.goal, self.kind, self.meta = name, hyp, goal, kind, meta or {}


class PC(object):
    """path condition: facts (branch conditions and assumptions) + guards (short-circuit / conditional-expression
    context). `assumed` holds the ids of the facts that are assumptions (definitions of fresh symbols, callee
    postconditions) rather than branch conditions."""
    __slots__ = ("facts", "guards", "assumed")

    def __init__(self, facts=None, guards=None, assumed=None):
        self.facts = list(facts) if facts else []
        self.guards = list(guards) if guards else []
        self.assumed = set(assumed) if assumed else set()

    def copy(self):
        return PC(self.facts, self.guards, self.assumed)

    def plus(self, c):
        p = PC(self.facts, self.guards, self.assumed)
        if c is not True:
            p.facts.append(z3.BoolVal(False) if c is False else c)
        return p

    def guarded(self, c):
        """same facts list object (assumptions made under the guard are recorded as implications)"""
        p = PC.__new__(PC)
        p.facts = self.facts
        p.assumed = self.assumed
        p.guards = self.guards + ([] if c is True else [z3.BoolVal(False) if c is False else c])
        return p

    def assume(self, f):
        if f is True:
            return
        if f is False:
            f = z3.BoolVal(False)
        if self.guards:
            f = z3.Implies(z3.And(*self.guards) if len(self.guards) > 1 else self.guards[0], f)
        self.facts.append(f)
        self.assumed.add(f.get_id())

    def hyp(self):
        return self.facts + self.guards


class LoopSpec(object):
    """sidecar loop contract. All callables take (st, ctx).
       inv: list of (name, fn) ; init: ghost initialisation before the loop ; step: ghost update at the
       end of the body ; ghost: names of ghost variables (havocked with the loop state)
       cumulative: clause j is proved assuming clauses 0..j-1 of the SAME state (sequential conjunction: A, then
       A => B, gives A and B), which lets a later clause reuse what an earlier one established about the new state"""

    def __init__(self, inv, init=None, step=None, ghost=(), nf_arrays=(), cumulative=False):
        self.inv, self.init, self.step, self.ghost, self.nf_arrays = inv, init, step, tuple(ghost), tuple(nf_arrays)
        self.cumulative = cumulative


def _assigned(stmts):
    out = set()
    for n in ast.walk(ast.Module(body=list(stmts), type_ignores=[])):
        tgts = []
        if isinstance(n, ast.Assign):
            tgts = n.targets
        elif isinstance(n, ast.AugAssign):
            tgts = [n.target]
        elif isinstance(n, ast.For):
            tgts = [n.target]
        for t in tgts:
            for e in ast.walk(t):
                if isinstance(e, ast.Name) and isinstance(e.ctx, (ast.Store,)):
                    out.add(e.id)
                elif isinstance(e, ast.Subscript) and isinstance(e.value, ast.Name):
                    out.add(e.value.id)
    return out


_BIN = {ast.Add: '+', ast.Sub: '-', ast.Mult: '*', ast.Div: '/'}
_CMP = {ast.Lt: '<', ast.LtE: '<=', ast.Gt: '>', ast.GtE: '>=', ast.Eq: '==', ast.NotEq: '!='}


class Engine(object):
    def __init__(self, funcs, mode, loop_specs=None, call_models=None, ctx=None, fname='?',
                 nf_arrays=(), modifies=(), prune=True, max_paths=200000):
        self.funcs = funcs                 # name -> ast.FunctionDef of the module under verification
        self.mode = mode
        self.loop_specs = loop_specs or {}  # (func name, loop ordinal) -> LoopSpec
        self.call_models = call_models or {}
        self.ctx = ctx
        self.fname = fname
        self.obls = []
        self.nf_arrays = set(nf_arrays)
        self.modifies = set(modifies)      # buffer / record ids that may be written although not local
        self.prune = prune
        self.nforks = 0
        self.npruned = 0
        self.max_paths = max_paths
        self.cur_func = None
        self.classes = {}                  # class name -> {method name: FunctionDef}
        self.expr_depth = 0
        self.config = 'fallback'           # 'compiled': imports of the C extension modules succeed (extracted text)
        self._solver = None
        self.loop_cover = {}               # loop key -> reached

    # ------------------------------------------------------------------ obligations / feasibility
    def oblige(self, name, pc, goal, kind='safety', meta=None):
        if goal is True:
            return
        if goal is False:
            goal = z3.BoolVal(False)
        self.obls.append(Obl(name, pc.hyp(), goal, kind, meta))

    def feasible(self, pc):
        if not self.prune or self.mode != 'B':
            return True
        s = z3.Solver()
        s.set('timeout', 4000)
        for p in pc.hyp():
            s.add(p)
        r = s.check()
        if r == z3.unsat:
            self.npruned += 1
            return False
        return True

    def need_finite(self, v, pc, what, node):
        t, f = split(v)
        if f is not True:
            self.oblige("finite:%s@%d" % (what, getattr(node, 'lineno', 0)), pc, f)
        return t

    # ------------------------------------------------------------------ expressions
    def ev(self, e, st, pc):
        m = getattr(self, 'ev_' + type(e).__name__, None)
        if m is None:
            raise Unsupported("expression %s at line %s" % (type(e).__name__, getattr(e, 'lineno', '?')))
        return m(e, st, pc)

    def ev_Constant(self, e, st, pc):
        return num(e.value)

    def ev_Name(self, e, st, pc):
        if e.id in st.vars:
            return st.vars[e.id]
        if e.id in ('True', 'False', 'None'):
            return {'True': True, 'False': False, 'None': None}[e.id]
        if e.id in ('float', 'int', 'str', 'bool', 'list', 'tuple'):
            return ('__name__', e.id)
        c = self.module_constant(e.id)
        if c is not None:
            return c[0]
        raise Unsupported("unbound name %s at line %d" % (e.id, e.lineno))

    def module_constant(self, name):
        """a module-level `NAME = <number>` of the module the current function lives in (assigned exactly once)"""
        f = self.funcs.get(self.cur_func)
        if f is None:
            return None
        from . import source
        for m in list(source._cache.values()):
            if m.funcs.get(self.cur_func) is f:
                hits = [n for n in m.tree.body if isinstance(n, ast.Assign) and len(n.targets) == 1 and isinstance(n.targets[0], ast.Name)
                        and n.targets[0].id == name]
                if len(hits) == 1 and isinstance(hits[0].value, ast.Constant) and isinstance(hits[0].value.value, (int, float)) \
                        and not isinstance(hits[0].value.value, bool):
                    v = hits[0].value.value
                    return (v if isinstance(v, int) else num(v),)
        return None

    def ev_UnaryOp(self, e, st, pc):
        v = self.ev(e.operand, st, pc)
        if isinstance(e.op, ast.USub):
            if isinstance(v, (ArrV, LazyArr)):
                return LazyArr(v.n, lambda k, v=v: neg(st.elem(v, k)))
            if isinstance(v, float) and abs(v) == float('inf'):
                return -v
            return neg(v)
        if isinstance(e.op, ast.UAdd):
            return v
        if isinstance(e.op, ast.Not):
            return bnot(self.truth(v, st, pc, e))
        raise Unsupported("unary op")

    def truth(self, v, st, pc, node):
        """python truthiness of a scalar"""
        if isinstance(v, bool) or (is_z3(v) and v.sort() == B):
            return v
        if v is None:
            return False
        if isinstance(v, (int, Fraction)):
            return v != 0
        if isinstance(v, NF) or is_z3(v):
            t = self.need_finite(v, pc, 'truth', node)
            return cmp('!=', t, 0)
        if isinstance(v, (list, tuple)):
            return len(v) > 0
        raise Unsupported("truthiness of %r" % (v,))

    def ev_BinOp(self, e, st, pc):
        a = self.ev(e.left, st, pc)
        b = self.ev(e.right, st, pc)
        if isinstance(e.op, ast.FloorDiv):
            if isinstance(a, int) and isinstance(b, int):
                return a // b
            raise Unsupported("symbolic //")
        if isinstance(e.op, ast.Mod) or isinstance(e.op, ast.Pow):
            if isinstance(a, (int, Fraction)) and isinstance(b, int):
                return a % b if isinstance(e.op, ast.Mod) else a ** b
            raise Unsupported("symbolic % or **")
        if isinstance(e.op, (ast.BitAnd, ast.BitOr)):
            return self.bool_elementwise('and' if isinstance(e.op, ast.BitAnd) else 'or', a, b, st, pc, e)
        op = _BIN.get(type(e.op))
        if op is None:
            raise Unsupported("binary operator %s" % type(e.op).__name__)
        if isinstance(a, list) and isinstance(b, list) and op == '+':
            return a + b
        if isinstance(a, (ArrV, LazyArr)) or isinstance(b, (ArrV, LazyArr)):
            if isinstance(a, list):
                a = LazyArr(len(a), lambda k, l=a: l[k])
            if isinstance(b, list):
                b = LazyArr(len(b), lambda k, l=b: l[k])
            return self.elementwise(op, a, b, st, pc, e)
        return arith(op, a, b)

    def elementwise(self, op, a, b, st, pc, node):
        aa, ab = isinstance(a, (ArrV, LazyArr)), isinstance(b, (ArrV, LazyArr))
        if aa and ab:
            self.oblige("shape:%s@%d" % (ast.unparse(node)[:40], node.lineno), pc, cmp('==', a.n, b.n))
            return LazyArr(a.n, lambda k: arith(op, st.elem(a, k), st.elem(b, k)))
        if aa:
            return LazyArr(a.n, lambda k: arith(op, st.elem(a, k), b))
        return LazyArr(b.n, lambda k: arith(op, a, st.elem(b, k)))

    def ev_Compare(self, e, st, pc):
        left = self.ev(e.left, st, pc)
        acc = True
        for opn, cn in zip(e.ops, e.comparators):
            right = self.ev(cn, st, pc.guarded(acc))
            if isinstance(opn, (ast.Is, ast.IsNot)):
                r = (left is right) if isinstance(opn, ast.Is) else (left is not right)
            elif isinstance(opn, (ast.In, ast.NotIn)):
                if isinstance(right, (list, tuple, dict)) and not is_z3(left):
                    r = (left in right) if isinstance(opn, ast.In) else (left not in right)
                else:
                    raise Unsupported("symbolic 'in'")
            else:
                op = _CMP[type(opn)]
                if isinstance(left, list) and not isinstance(right, (list, tuple)) and self.mode == 'B' and left and not isinstance(left[0], (list, tuple)):
                    left = LazyArr(len(left), lambda k, l=left: l[k])
                if isinstance(left, (ArrV, LazyArr)) or isinstance(right, (ArrV, LazyArr)):
                    if len(e.ops) != 1:
                        raise Unsupported("chained array comparison")
                    la, ra = isinstance(left, (ArrV, LazyArr)), isinstance(right, (ArrV, LazyArr))
                    n_ = left.n if la else right.n
                    if la and ra:
                        self.oblige("shape:%s@%d" % (ast.unparse(e)[:40], e.lineno), pc, cmp('==', left.n, right.n))
                    return LazyArr(n_, lambda k, l=left, r_=right, la=la, ra=ra, op=op: cmp(
                        op, split(st.elem(l, k))[0] if la else l, split(st.elem(r_, k))[0] if ra else r_))
                l = self.need_finite(left, pc, 'cmp', e)
                rr = self.need_finite(right, pc, 'cmp', e)
                r = cmp(op, l, rr)
            acc = band(acc, r)
            left = right
        return acc

    def ev_BoolOp(self, e, st, pc):
        isand = isinstance(e.op, ast.And)
        if len(e.values) == 2:
            # Python returns an OPERAND, not a truth value: `a or b` is a when a is truthy, else b. Matters when the
            # operands are numbers (`ival[0] or self.x[0]`); for booleans it coincides with the logical connective
            a = self.ev(e.values[0], st, pc)
            isnum = lambda v: (isinstance(v, (int, Fraction, float, NF)) and not isinstance(v, bool)) or (is_z3(v) and v.sort() != B)
            if isnum(a):
                ta = self.truth(a, st, pc, e)
                b = self.ev(e.values[1], st, pc.guarded(ta if isand else bnot(ta)))
                if isnum(b):
                    return ite(ta, b, a) if isand else ite(ta, a, b)
                tb = self.truth(b, st, pc, e)
                return band(ta, tb) if isand else bor(ta, tb)
        acc = True if isand else False
        g = True
        for v in e.values:
            x = self.truth(self.ev(v, st, pc.guarded(g)), st, pc.guarded(g), e)
            if isand:
                acc = band(acc, x)
                g = band(g, x)
            else:
                acc = bor(acc, x)
                g = band(g, bnot(x))
            if g is False:
                break
        return acc

    def ev_IfExp(self, e, st, pc):
        c = self.truth(self.ev(e.test, st, pc), st, pc, e)
        if c is True:
            return self.ev(e.body, st, pc)
        if c is False:
            return self.ev(e.orelse, st, pc)
        a = self.ev(e.body, st, pc.guarded(c))
        b = self.ev(e.orelse, st, pc.guarded(bnot(c)))
        scalar = lambda v: isinstance(v, (int, bool, Fraction, NF)) or is_z3(v)
        if not (scalar(a) and scalar(b)):
            if self.mode == 'B':
                # objects / arrays cannot be merged: decided by the path condition, or the statement is re-run under c / not c
                return a if self.demand_bool(c, pc) else b
            raise Unsupported("conditional expression over non-scalars at line %d" % e.lineno)
        return ite(c, a, b)

    def ev_ListComp(self, e, st, pc):
        if self.mode != 'B':
            raise Unsupported("list comprehension in P mode")
        out = []
        saved = dict(st.vars)

        def rec(gi):
            if gi == len(e.generators):
                out.append(self.ev(e.elt, st, pc))
                return
            g = e.generators[gi]
            seq = self.ev(g.iter, st, pc)
            if isinstance(seq, (ArrV, LazyArr)):
                if not isinstance(seq.n, int):
                    raise Unsupported("comprehension over symbolic length")
                seq = [st.elem(seq, k) for k in range(seq.n)]
            if not isinstance(seq, (list, tuple)):
                raise Unsupported("comprehension over %r" % type(seq).__name__)
            for item in seq:
                self.assign(g.target, item, st, pc)
                ok = True
                for cnd in g.ifs:
                    if not self.demand_bool(self.truth(self.ev(cnd, st, pc), st, pc, e), pc):
                        ok = False
                        break
                if ok:
                    rec(gi + 1)
        rec(0)
        for k in list(st.vars):
            if k not in saved:
                del st.vars[k]
        st.vars.update(saved)
        return out

    def ev_List(self, e, st, pc):
        return [self.ev(x, st, pc) for x in e.elts]

    def ev_Tuple(self, e, st, pc):
        return tuple(self.ev(x, st, pc) for x in e.elts)

    def ev_Attribute(self, e, st, pc):
        full = ast.unparse(e)
        if full in ('np.inf', 'numpy.inf', 'math.inf'):
            return float('inf')           # only as the neutral element of min / max (bi_min / bi_max); any arithmetic on it is unsupported
        if full in self.call_models or full.startswith('np.') or full.startswith('collections.'):
            return ('__name__', full)
        v = self.ev(e.value, st, pc)
        if isinstance(v, Rec):
            f = st.heap[v.id]
            if e.attr in f:
                return f[e.attr]
            d = self.ctor_default(v.cls, e.attr)
            if d is not None:
                # object built by a contract (not through __init__): a field the constructor initialises with a constant
                f[e.attr] = d[0]
                return d[0]
            return ('__method__', v, e.attr)
        if isinstance(v, (ArrV, LazyArr)) and e.attr == 'shape':
            return (v.n,)
        if isinstance(v, Arr2) and e.attr == 'shape':
            return (len(v.rows), v.n)
        raise Unsupported("attribute %s at line %d" % (full, e.lineno))

    def ctor_default(self, cls, attr):
        """(constant,) if cls.__init__ contains `self.<attr> = <constant>`, else None"""
        from . import source
        try:
            cd = self.classes.get(cls) or {m.name: m for m in source.module(CLASS_HOME[cls]).classes[cls].body if hasattr(m, 'name')}
        except Exception:
            return None
        if attr in cd or '__init__' not in cd:
            return None
        for n in ast.walk(cd['__init__']):
            if isinstance(n, ast.Assign) and len(n.targets) == 1 and isinstance(n.targets[0], ast.Attribute) \
                    and isinstance(n.targets[0].value, ast.Name) and n.targets[0].value.id == 'self' and n.targets[0].attr == attr \
                    and isinstance(n.value, ast.Constant):
                return (n.value.value,)
        return None

    # -- indexing ----------------------------------------------------------------------------
    def norm_index(self, i, n):
        if isinstance(i, int) and i < 0:
            return arith('+', n, i)
        return i

    def bounds(self, i, n, pc, what, node):
        g = band(cmp('>=', i, 0), cmp('<', i, n))
        self.oblige("bounds:%s@%d" % (what, node.lineno), pc, g)

    def slice_of(self, sl, n, st, pc, node):
        lo = self.ev(sl.lower, st, pc) if sl.lower is not None else 0
        hi = self.ev(sl.upper, st, pc) if sl.upper is not None else n
        step = self.ev(sl.step, st, pc) if sl.step is not None else 1
        lo, hi = self.norm_index(lo, n), self.norm_index(hi, n)
        if not isinstance(step, int) or step < 1:
            raise Unsupported("slice step")
        self.oblige("slice:%s@%d" % (ast.unparse(node)[:40], node.lineno), pc,
                    band(cmp('>=', lo, 0), cmp('<=', lo, hi), cmp('<=', hi, n)))
        return lo, hi, step

    def ev_Subscript(self, e, st, pc):
        v = self.ev(e.value, st, pc)
        if isinstance(v, Arr2):
            return self.index2(v, e.slice, st, pc, e)
        return self.index_value(v, e, st, pc)

    def index2(self, v, sl, st, pc, e):
        """a[r], a[r, <index or slice>], a[:, k] of a 2-D array with concrete row count"""
        if isinstance(sl, ast.Tuple) and len(sl.elts) == 2:
            r_ast, c_ast = sl.elts
            if isinstance(r_ast, ast.Slice) and r_ast.lower is None and r_ast.upper is None and r_ast.step is None:
                if isinstance(c_ast, ast.Slice):
                    raise Unsupported("2-D block slice at line %d" % e.lineno)
                k = self.ev(c_ast, st, pc)
                k = self.norm_index(k, v.n)
                self.bounds(k, v.n, pc, ast.unparse(e)[:40], e)
                return LazyArr(len(v.rows), lambda q, v=v, k=k: st.elem(v.rows[q], k))
            r = self.ev(r_ast, st, pc)
            if not isinstance(r, int) or isinstance(r, bool):
                raise Unsupported("symbolic row index at line %d" % e.lineno)
            if not (-len(v.rows) <= r < len(v.rows)):
                self.oblige("bounds:%s@%d" % (ast.unparse(e)[:40], e.lineno), pc, False)
                raise PathAbort()
            fake = ast.Subscript(value=e.value, slice=c_ast, ctx=ast.Load())
            ast.copy_location(fake, e)
            return self.index_value(v.rows[r], fake, st, pc)
        if isinstance(sl, ast.Slice):
            raise Unsupported("row slice of a 2-D array at line %d" % e.lineno)
        r = self.ev(sl, st, pc)
        if not isinstance(r, int) or isinstance(r, bool) or not (-len(v.rows) <= r < len(v.rows)):
            raise Unsupported("row index at line %d" % e.lineno)
        return v.rows[r]

    def index_value(self, v, e, st, pc):
        if isinstance(v, (list, tuple)):
            if isinstance(e.slice, ast.Slice):
                lo = self.ev(e.slice.lower, st, pc) if e.slice.lower is not None else None
                hi = self.ev(e.slice.upper, st, pc) if e.slice.upper is not None else None
                return v[lo:hi]
            i = self.ev(e.slice, st, pc)
            if not isinstance(i, int):
                raise Unsupported("symbolic index into python sequence")
            if not (-len(v) <= i < len(v)):
                self.oblige("bounds:%s@%d" % (ast.unparse(e)[:40], e.lineno), pc, False)
                raise PathAbort()
            return v[i]
        if isinstance(v, (int, Fraction, NF)) or is_z3(v):
            raise PyRaise('TypeError')
        if not isinstance(v, (ArrV, LazyArr)):
            raise Unsupported("subscript of %r at line %d" % (type(v).__name__, e.lineno))
        if isinstance(e.slice, ast.Slice):
            lo, hi, step = self.slice_of(e.slice, v.n, st, pc, e)
            n = arith('-', hi, lo)
            if step != 1:
                if not (isinstance(n, int)):
                    raise Unsupported("strided slice of symbolic length")
                n = (n + step - 1) // step
            if isinstance(v, LazyArr):
                return LazyArr(n, lambda k, v=v, lo=lo, step=step: v.fn(arith('+', lo, arith('*', k, step))))
            if v.stride != 1:
                raise Unsupported("slice of strided view")
            return ArrV(v.buf, arith('+', v.off, lo), n, step)
        i = self.ev(e.slice, st, pc)
        if isinstance(i, (ArrV, LazyArr)) and self.mode == 'B' and isinstance(i.n, int) and i.n == 0 and isinstance(v.n, int) and v.n != 0:
            return st.alloc([], 0, "empty-index@%d" % e.lineno)
        if isinstance(i, (ArrV, LazyArr)) and self.mode == 'B' and isinstance(i.n, int) and isinstance(v.n, int):
            # boolean mask (bounded mode): each mask entry is decided by the path condition or forked
            first = st.elem(i, 0) if i.n > 0 else True
            if isinstance(first, bool) or (is_z3(first) and first.sort() == B):
                self.oblige("mask-shape:%s@%d" % (ast.unparse(e)[:40], e.lineno), pc, i.n == v.n)
                keep = [st.elem(v, k) for k in range(min(i.n, v.n)) if self.demand_bool(st.elem(i, k), pc)]
                return st.alloc(keep, len(keep), "masked@%d" % e.lineno)
        if isinstance(i, (ArrV, LazyArr)) and self.mode == 'B' and isinstance(i.n, int):
            idx = [st.elem(i, k) for k in range(i.n)]
            if all(isinstance(x, int) and not isinstance(x, bool) for x in idx):
                out_ = []
                for x in idx:
                    x = self.norm_index(x, v.n)
                    self.bounds(x, v.n, pc, ast.unparse(e)[:40], e)
                    if isinstance(v.n, int) and not (0 <= x < v.n):
                        raise PathAbort()
                    out_.append(st.elem(v, x))
                return st.alloc(out_, len(out_), "gather@%d" % e.lineno)
        if isinstance(i, (ArrV, LazyArr, list)):
            raise Unsupported("fancy indexing at line %d" % e.lineno)
        i = self.need_finite(i, pc, 'index', e)
        if isinstance(i, bool):
            i = int(i)
        if not (isinstance(i, int) or is_int_sorted(i)):
            raise Unsupported("non-integer index at line %d" % e.lineno)
        i = self.norm_index(i, v.n)
        self.bounds(i, v.n, pc, ast.unparse(e)[:40], e)
        if isinstance(i, int) and isinstance(v.n, int) and not (0 <= i < v.n):
            raise PathAbort()
        return st.elem(v, i)

    # -- calls -------------------------------------------------------------------------------
    def ev_Call(self, e, st, pc):
        fn = ast.unparse(e.func)
        if fn == 'pyspike.NoCythonWarn':
            return None
        if fn in self.call_models:
            args = [self.ev(a, st, pc) for a in e.args]
            kw = {k.arg: self.ev(k.value, st, pc) for k in e.keywords}
            return self.call_models[fn](self, args, kw, st, pc, e)
        b = getattr(self, 'bi_' + fn.replace('.', '_'), None)
        if b is not None:
            args = [self.ev(a, st, pc) for a in e.args]
            kw = {k.arg: self.ev(k.value, st, pc) for k in e.keywords}
            return b(args, kw, st, pc, e)
        if isinstance(e.func, ast.Name) and isinstance(st.vars.get(fn), Rec):
            # calling an object: its class' __call__
            rec = st.vars[fn]
            args = [self.ev(a, st, pc) for a in e.args]
            kw = {k.arg: self.ev(k.value, st, pc) for k in e.keywords}
            return self.adopt_single(self.in_expr(self.method_paths, rec, '__call__', args, kw, st, pc, e), st, pc, rec.cls + '.__call__')
        if isinstance(e.func, ast.Attribute) and isinstance(e.func.value, ast.Name) and \
                isinstance(st.vars.get(e.func.value.id), Rec):
            rec = st.vars[e.func.value.id]
            mname = e.func.attr
            cls = self.classes.get(rec.cls)
            if cls is not None and mname in cls:
                key = "%s.%s" % (rec.cls, mname)
                args = [self.ev(a, st, pc) for a in e.args]
                kw = {k.arg: self.ev(k.value, st, pc) for k in e.keywords}
                if key in self.call_models:
                    return self.call_models[key](self, [rec] + args, kw, st, pc, e)
                return self.inline_merge(cls[mname], [rec] + args, kw, st, pc, e)
            if cls is None and rec.cls in CLASS_HOME:
                args = [self.ev(a, st, pc) for a in e.args]
                kw = {k.arg: self.ev(k.value, st, pc) for k in e.keywords}
                return self.adopt_single(self.in_expr(self.method_paths, rec, mname, args, kw, st, pc, e), st, pc, rec.cls + '.' + mname)
        if isinstance(e.func, ast.Attribute) and e.func.attr in ('append', 'extend') and isinstance(e.func.value, ast.Name) \
                and type(st.vars.get(e.func.value.id)) is list:
            lst = st.vars[e.func.value.id]
            arg = self.ev(e.args[0], st, pc)
            if e.func.attr == 'append':
                lst.append(arg)
            else:
                lst.extend(self._elems(arg, st, pc))
            return None
        if isinstance(e.func, ast.Attribute) and e.func.attr in ('sort', 'copy', 'tolist'):
            base = self.ev(e.func.value, st, pc)
            if isinstance(base, (ArrV, LazyArr)):
                return self.array_method(e.func.attr, base, e.func.value, st, pc, e)
        if isinstance(e.func, ast.Name) and fn in CLASS_HOME and fn not in st.vars:
            args = [self.ev(a, st, pc) for a in e.args]
            kw = {k.arg: self.ev(k.value, st, pc) for k in e.keywords}
            return self.construct(fn, args, kw, st, pc, e)
        if isinstance(e.func, ast.Name) and isinstance(st.vars.get(fn), FuncRef):
            args = [self.ev(a, st, pc) for a in e.args]
            kw = {k.arg: self.ev(k.value, st, pc) for k in e.keywords}
            paths = self.in_expr(self.callee_paths, st.vars[fn], args, kw, st, pc, e)
            return self.adopt_single(paths, st, pc, fn)
        if isinstance(e.func, ast.Name):
            target = st.vars.get(fn)
            if isinstance(target, Closure):
                args = [self.ev(a, st, pc) for a in e.args]
                n_obl = len(self.obls)
                try:
                    return self.inline_merge(target.fdef, args, {}, st, pc, e, env=target.env)
                except Unsupported as ex:
                    if 'heap effects' not in str(ex) or self.mode != 'B':
                        raise
                    del self.obls[n_obl:]
                    # a local helper that allocates: executed as a callee of its own (single path, or the statement forks)
                    vs = dict(target.env)
                    vs.update(self.bind_args(target.fdef, args, {}, st, pc))
                    callee = State(vs, dict(st.heap))
                    paths = self.in_expr(self.exec_block, target.fdef.body, callee, pc.copy())
                    outp = []
                    for (s2, pc2, o2) in paths:
                        if o2 is None:
                            o2 = ('ret', None)
                        if o2[0] != 'ret':
                            raise Unsupported("local helper %s ends with %s" % (target.fdef.name, o2[0]))
                        outp.append((State(dict(st.vars), s2.heap), pc2, o2[1]))
                    return self.adopt_single(outp, st, pc, target.fdef.name)
            if fn in self.funcs:
                args = [self.ev(a, st, pc) for a in e.args]
                kw = {k.arg: self.ev(k.value, st, pc) for k in e.keywords}
                n_obl = len(self.obls)
                try:
                    return self.inline_merge(self.funcs[fn], args, kw, st, pc, e)
                except Unsupported as ex:
                    if 'heap effects' not in str(ex) or self.mode != 'B':
                        raise
                    del self.obls[n_obl:]
                    # a module-level helper that allocates, called inside an expression: executed as a callee of its own
                    # (single path - forks requested inside it re-execute the enclosing statement)
                    paths = self.in_expr(self.callee_paths, self.funcs[fn], args, kw, st, pc, e)
                    return self.adopt_single(paths, st, pc, fn)
        raise Unsupported("call to %s at line %d" % (fn, e.lineno))

    def in_expr(self, fn, *a):
        self.expr_depth += 1
        try:
            return fn(*a)
        finally:
            self.expr_depth -= 1

    def adopt_single(self, paths, st, pc, what):
        """expression-level call of a callee with heap effects: allowed when it has exactly one path"""
        if len(paths) != 1:
            raise Unsupported("callee %s forks inside an expression (%d paths)" % (what, len(paths)))
        st2, pc2, rv = paths[0]
        st.heap.clear()
        st.heap.update(st2.heap)
        for h in pc2.facts[len(pc.facts):]:
            pc.facts.append(h)
        pc.assumed |= pc2.assumed
        return rv

    def construct(self, cname, args, kw, st, pc, node):
        from . import source
        mod = source.module(CLASS_HOME[cname])
        init = mod.func('__init__', cname)
        rec = st.new_rec(cname, {'__local__': True})
        saved = (self.funcs, self.classes, self.cur_func)
        self.funcs = mod.funcs
        self.classes = {cn: {m.name: m for m in cd.body if hasattr(m, 'name')} for cn, cd in mod.classes.items()}
        try:
            paths = self.in_expr(self.callee_paths, init, [rec] + args, kw, st, pc, node)
        finally:
            self.funcs, self.classes, self.cur_func = saved
        self.adopt_single(paths, st, pc, cname + '.__init__')
        return rec

    def array_method(self, name, a, target_node, st, pc, node):
        if name == 'tolist':
            if not isinstance(a.n, int):
                raise Unsupported("tolist of symbolic length")
            return [st.elem(a, k) for k in range(a.n)]
        if name == 'copy':
            return self.copy_array(a, st, pc, node)
        if name == 'sort':
            vals = self.sorted_values([st.elem(a, k) for k in range(a.n)], pc, node, unique=False)
            self.store_slice(a, 0, a.n, 1, vals, st, pc, node)
            return None
        raise Unsupported(name)

    def sorted_values(self, vals, pc, node, unique):
        """insertion sort by demanded comparisons (bounded mode): the ordering is decided by the path condition or forked"""
        out = []
        for v in vals:
            v = self.need_finite(v, pc, 'sort', node)
            pos = len(out)
            dup = False
            for k, w in enumerate(out):
                if unique and self.demand_bool(cmp('==', v, w), pc):
                    dup = True
                    break
                if self.demand_bool(cmp('<', v, w), pc):
                    pos = k
                    break
            if not dup:
                out.insert(pos, v)
        return out

    def bind_args(self, fdef, args, kw, st, pc):
        names = [a.arg for a in fdef.args.args]
        vs = {}
        for n_, v in zip(names, args):
            vs[n_] = v
        nd = len(fdef.args.defaults)
        for a, d in zip(names[len(names) - nd:], fdef.args.defaults):
            if a not in vs:
                vs[a] = kw[a] if a in kw else self.ev(d, State({}, st.heap), pc)
        for k, v in kw.items():
            vs[k] = v
        for n_ in names:
            if n_ not in vs:
                raise Unsupported("missing argument %s of %s" % (n_, fdef.name))
        return vs

    def inline_merge(self, fdef, args, kw, st, pc, node, env=None):
        """inline a callee that has no heap effect and returns scalars; merge its paths into ite terms"""
        vs = dict(env) if env else {}
        vs.update(self.bind_args(fdef, args, kw, st, pc))
        callee = State(vs, dict(st.heap))
        saved = self.cur_func
        self.cur_func = fdef.name
        base = len(pc.hyp())
        try:
            paths = self.exec_block(fdef.body, callee, pc.copy() if not pc.guards else PC(pc.hyp(), None, pc.assumed))
        finally:
            self.cur_func = saved
        rets = []
        for (s2, pc2, out) in paths:
            if out is None:
                out = ('ret', None)
            if out[0] == 'raise':
                self.oblige("callee-raises:%s.%s@%d" % (fdef.name, out[1], node.lineno), pc2, False)
                continue
            if out[0] != 'ret':
                raise Unsupported("callee %s ends with %s" % (fdef.name, out[0]))
            for k_, v_ in s2.heap.items():
                if st.heap.get(k_) is not v_:
                    raise Unsupported("inlined callee %s has heap effects" % fdef.name)
            conds = []
            for h in pc2.hyp()[base:]:
                if is_z3(h) and h.get_id() in pc2.assumed:
                    pc.assume(implies(band(*conds), h))      # callee-side assumption: valid under the branch so far
                else:
                    conds.append(h)
            rets.append((band(*conds), out[1]))
        if not rets:
            raise PathAbort()
        return self.merge_values(rets)

    def merge_values(self, rets):
        v = rets[-1][1]
        for cond, r in reversed(rets[:-1]):
            if isinstance(v, tuple):
                v = tuple(ite(cond, a, b) for a, b in zip(r, v))
            else:
                v = ite(cond, r, v)
        return v

    # builtins --------------------------------------------------------------------------------
    def bi_len(self, args, kw, st, pc, node):
        a = args[0]
        if isinstance(a, (list, tuple)):
            return len(a)
        if isinstance(a, (ArrV, LazyArr)):
            return a.n
        if isinstance(a, Rec) and 'spikes' in st.heap[a.id]:
            return st.heap[a.id]['spikes'].n
        raise Unsupported("len of %r" % (a,))

    def bi_getattr(self, args, kw, st, pc, node):
        obj, name = args[0], args[1]
        if not isinstance(obj, Rec) or not isinstance(name, str):
            raise Unsupported("getattr at line %d" % node.lineno)
        f = st.heap[obj.id]
        if name in f:
            return f[name]
        d = self.ctor_default(obj.cls, name)
        if d is not None:
            return d[0]
        if len(args) > 2:
            return args[2]
        raise PyRaise('AttributeError')

    def bi_abs(self, args, kw, st, pc, node):
        return rabs(args[0])
    bi_fabs = bi_abs

    def _fold(self, f, args):
        if len(args) == 1 and isinstance(args[0], (list, tuple)):
            args = list(args[0])
        r = args[0]
        for a in args[1:]:
            r = f(r, a)
        return r

    @staticmethod
    def _drop_inf(args, sign):
        if len(args) == 1 and isinstance(args[0], (list, tuple)):
            args = list(args[0])
        keep = [a for a in args if not (isinstance(a, float) and a == sign * float('inf'))]
        if any(isinstance(a, float) and abs(a) == float('inf') for a in keep):
            raise Unsupported("min / max with an infinity that is not its neutral element")
        if not keep:
            raise Unsupported("min / max of infinities only")
        return keep

    def bi_max(self, args, kw, st, pc, node):
        return self._fold(rmax, self._drop_inf(args, -1))

    def bi_min(self, args, kw, st, pc, node):
        return self._fold(rmin, self._drop_inf(args, +1))
    bi_fmax = bi_max
    bi_fmin = bi_min

    def bi_float(self, args, kw, st, pc, node):
        return args[0]

    def bi_int(self, args, kw, st, pc, node):
        if isinstance(args[0], int):
            return args[0]
        if isinstance(args[0], Fraction):
            return int(args[0])
        x = self.need_finite(args[0], pc, 'int()', node)
        if is_int_sorted(x):
            return x
        if is_real_sorted(x) and self.mode == 'B':
            # truncation towards zero of a symbolic real: fresh integer with its defining inequalities, then made concrete
            # (a function of the argument: re-executing the statement after a fork meets the same symbol again)
            k = TRUNC(toR(x))
            kr = z3.ToReal(k)
            pc.assume(z3.If(x >= 0, z3.And(kr <= x, x < kr + 1), z3.And(kr >= x, x > kr - 1)))
            vals = self.concretize(k, pc, limit=16)
            if len(vals) == 1:
                return vals[0]
            raise ForkRequest(k == vals[0])
        raise Unsupported("int() of symbolic")

    def bi_np_flatnonzero(self, args, kw, st, pc, node):
        a = args[0]
        if not isinstance(a, (ArrV, LazyArr)) or not isinstance(a.n, int):
            raise Unsupported("np.flatnonzero of symbolic length")
        idx = [k for k in range(a.n) if self.demand_bool(self.truth(st.elem(a, k), st, pc, node), pc)]
        return st.alloc(idx, len(idx), "flatnonzero@%d" % node.lineno)

    def bi_np_delete(self, args, kw, st, pc, node):
        a, idx = args[0], args[1]
        vals = self._elems(a, st, pc)
        drop = self._elems(idx, st, pc) if isinstance(idx, (ArrV, LazyArr, list, tuple)) else [idx]
        if not all(isinstance(k, int) and not isinstance(k, bool) for k in drop):
            raise Unsupported("np.delete with symbolic positions")
        for k in drop:
            self.oblige("bounds:np.delete@%d" % node.lineno, pc, -len(vals) <= k < len(vals))
        dropset = set(k % len(vals) for k in drop) if vals else set()
        out = [v for k, v in enumerate(vals) if k not in dropset]
        return st.alloc(out, len(out), "delete@%d" % node.lineno)

    def bi_np_where(self, args, kw, st, pc, node):
        if len(args) == 1:
            return (self.bi_np_flatnonzero(args, kw, st, pc, node),)
        c_, a, b = args
        n_ = c_.n
        ga = (lambda k: st.elem(a, k)) if isinstance(a, (ArrV, LazyArr)) else (lambda k: a)
        gb = (lambda k: st.elem(b, k)) if isinstance(b, (ArrV, LazyArr)) else (lambda k: b)
        return LazyArr(n_, lambda k: ite(self.truth(st.elem(c_, k), st, pc, node), ga(k), gb(k)))

    def bi_np_arange(self, args, kw, st, pc, node):
        if not all(isinstance(a, int) for a in args):
            raise Unsupported("np.arange with symbolic bounds")
        vals = list(range(*args))
        return st.alloc(vals, len(vals), "arange@%d" % node.lineno)

    def bi_np_linspace(self, args, kw, st, pc, node):
        """assumed numpy contract: num equally spaced points from start to stop inclusive"""
        a, b, num = args[0], args[1], args[2] if len(args) > 2 else kw.get('num', 50)
        if not isinstance(num, int):
            raise Unsupported("linspace with symbolic count")
        if num == 1:
            vals = [a]
        else:
            vals = [arith('+', a, arith('/', arith('*', arith('-', b, a), k), num - 1)) for k in range(num)]
            vals[-1] = b
        return st.alloc(vals, num, "linspace@%d" % node.lineno)

    def bi_np_histogram(self, args, kw, st, pc, node):
        """assumed numpy contract: counts per bin [e_k, e_k+1), the LAST bin closed on the right; returns (counts, edges)"""
        vals = self._elems(args[0], st, pc)
        bins = args[1] if len(args) > 1 else kw.get('bins')
        edges = self._elems(bins, st, pc)
        m = len(edges) - 1
        counts = []
        for k in range(m):
            c = 0
            for v in vals:
                v_ = split(v)[0]
                inside = band(cmp('<=', edges[k], v_), cmp('<', v_, edges[k + 1]) if k < m - 1 else cmp('<=', v_, edges[k + 1]))
                c = arith('+', c, ite(inside, 1, 0))
            counts.append(c)
        return (st.alloc(counts, m, "histogram@%d" % node.lineno), st.alloc(list(edges), m + 1, "histogram-edges@%d" % node.lineno))

    def bi_range(self, args, kw, st, pc, node):
        if all(isinstance(a, int) for a in args):
            return list(range(*args))
        raise Unsupported("symbolic range outside a for header")
    bi_xrange = bi_range

    def bi_print(self, args, kw, st, pc, node):
        return None

    def bi_isinstance(self, args, kw, st, pc, node):
        v, cls = args
        cname = cls[1] if isinstance(cls, tuple) and cls[0] == '__name__' else cls
        if cname == 'collections.abc.Sequence':
            return isinstance(v, (list, tuple))
        if cname == 'str' or cls is str:
            return isinstance(v, str)
        raise Unsupported("isinstance %r" % (cname,))

    def _alloc(self, n, st, pc, node, init, like=None):
        if isinstance(n, tuple):
            if len(n) == 2 and isinstance(n[0], int) and not isinstance(n[0], bool) and 0 <= n[0] <= 8:
                return Arr2([self._alloc(n[1], st, pc, node, init) for _ in range(n[0])], n[1])
            raise Unsupported("2-D allocation")
        if not (isinstance(n, int) or is_int_sorted(n)):
            raise Unsupported("allocation size %r" % (n,))
        self.oblige("alloc>=0@%d" % node.lineno, pc, cmp('>=', n, 0))
        name = "alloc@%d" % node.lineno
        if isinstance(n, int) and self.mode == 'B':
            if init is None:
                data = [fresh('u', R) for _ in range(n)]
            else:
                data = [init] * n
            return st.alloc(data, n, name)
        if init is None:
            data = fresh('arr', ARR)
        else:
            data = z3.K(I, toR(init))
        return st.alloc(data, n, name)

    def bi_np_empty(self, args, kw, st, pc, node):
        return self._alloc(args[0], st, pc, node, None)

    def bi_np_zeros(self, args, kw, st, pc, node):
        return self._alloc(args[0], st, pc, node, 0)

    def bi_np_ones(self, args, kw, st, pc, node):
        return self._alloc(args[0], st, pc, node, 1)

    def bi_np_empty_like(self, args, kw, st, pc, node):
        return self._alloc(args[0].n, st, pc, node, None)

    def bi_np_zeros_like(self, args, kw, st, pc, node):
        return self._alloc(args[0].n, st, pc, node, 0)

    def bi_np_asarray(self, args, kw, st, pc, node):
        return args[0]

    def bi_np_array(self, args, kw, st, pc, node):
        """np.array(x): fresh copy"""
        a = args[0]
        if isinstance(a, (list, tuple)):
            if self.mode != 'B':
                raise Unsupported("np.array(list) in P mode")
            if any(isinstance(x, (list, tuple, ArrV)) for x in a):
                raise Unsupported("np.array of nested sequence")
            return st.alloc(list(a), len(a), "array@%d" % node.lineno)
        if isinstance(a, LazyArr):
            return st.alloc([a.fn(k) for k in range(a.n)], a.n, "array@%d" % node.lineno)
        return self.copy_array(a, st, pc, node)

    def copy_array(self, a, st, pc, node):
        if isinstance(a.n, int) and self.mode == 'B':
            return st.alloc([st.elem(a, k) for k in range(a.n)], a.n, "copy@%d" % node.lineno)
        new = fresh('cp', ARR)
        k = fresh('kc', I)
        t, f = split(st.elem(a, k))
        if f is not True:
            raise Unsupported("copy of possibly non-finite array in P mode")
        pc.assume(z3.ForAll([k], z3.Implies(z3.And(0 <= k, k < toI(a.n)), z3.Select(new, k) == t)))
        return st.alloc(new, a.n, "copy@%d" % node.lineno)

    def _elems(self, a, st, pc=None):
        if isinstance(a, (list, tuple)):
            return list(a)
        if isinstance(a, (ArrV, LazyArr)):
            if not isinstance(a.n, int):
                from .harness import entailed
                if pc is not None and entailed(pc.hyp(), cmp('==', a.n, 0), 2000):
                    return []
                raise Unsupported("symbolic length")
            return [st.elem(a, k) for k in range(a.n)]
        return [a]

    def bi_np_unique(self, args, kw, st, pc, node):
        vals = self.sorted_values(self._elems(args[0], st), pc, node, unique=True)
        return st.alloc(vals, len(vals), "unique@%d" % node.lineno)

    def bi_np_sort(self, args, kw, st, pc, node):
        vals = self.sorted_values(self._elems(args[0], st), pc, node, unique=False)
        return st.alloc(vals, len(vals), "sort@%d" % node.lineno)

    def bi_np_intersect1d(self, args, kw, st, pc, node):
        """assumed numpy contract: sorted distinct values present in both arrays; with return_indices=True also the index of
        the FIRST occurrence of each of them in either array (bounded mode: equalities decided by the path condition or forked)"""
        if self.mode != 'B':
            raise Unsupported("np.intersect1d in P mode")
        a, b = self._elems(args[0], st, pc), self._elems(args[1], st, pc)
        ua = self.sorted_values(list(a), pc, node, unique=True)
        eq = lambda x, y: self.demand_bool(cmp('==', x, y), pc)
        common, ia, ib = [], [], []
        for v in ua:
            jb = next((j for j, w in enumerate(b) if eq(v, w)), None)
            if jb is None:
                continue
            common.append(v)
            ia.append(next(i for i, w in enumerate(a) if eq(v, w)))
            ib.append(jb)
        out = st.alloc(common, len(common), "intersect1d@%d" % node.lineno)
        if kw.get('return_indices'):
            return (out, st.alloc(ia, len(ia), "intersect1d.ia@%d" % node.lineno), st.alloc(ib, len(ib), "intersect1d.ib@%d" % node.lineno))
        return out

    def bi_np_concatenate(self, args, kw, st, pc, node):
        vals = []
        for a in args[0]:
            vals += self._elems(a, st)
        return st.alloc(vals, len(vals), "concatenate@%d" % node.lineno)

    def bi_np_append(self, args, kw, st, pc, node):
        vals = self._elems(args[0], st) + self._elems(args[1], st)
        return st.alloc(vals, len(vals), "append@%d" % node.lineno)

    def bi_np_bincount(self, args, kw, st, pc, node):
        """assumed numpy contract: out[v] = number of occurrences of v, length max(minlength, max+1); negative -> error"""
        idx = self._elems(args[0], st, pc)
        if not all(isinstance(k, int) and not isinstance(k, bool) for k in idx):
            raise Unsupported("np.bincount of symbolic values")
        ml = kw.get('minlength', args[1] if len(args) > 1 else 0)
        if not isinstance(ml, int):
            raise Unsupported("np.bincount with symbolic minlength")
        if any(k < 0 for k in idx):
            raise PyRaise('ValueError')
        n = max([ml] + [k + 1 for k in idx])
        out = [sum(1 for k in idx if k == v) for v in range(n)]
        return st.alloc(out, n, "bincount@%d" % node.lineno)

    def bi_np_cumsum(self, args, kw, st, pc, node):
        vals = self._elems(args[0], st, pc)
        out, r = [], 0
        for v in vals:
            r = arith('+', r, v)
            out.append(r)
        dst = kw.get('out')
        if dst is not None:
            if not isinstance(dst, ArrV):
                raise Unsupported("np.cumsum(out=...) into a non-array")
            self.store_slice(dst, 0, dst.n, 1, LazyArr(len(out), lambda k, out=out: out[k]), st, pc, node)
            return dst
        return st.alloc(out, len(out), "cumsum@%d" % node.lineno)

    def bi_np_random_exponential(self, args, kw, st, pc, node):
        """assumed contract of the generator: n finite draws >= 0 (nothing else is assumed about them). The draws are
        recorded in ctx.draws so that a counterexample can be replayed with np.random.exponential returning them."""
        n = args[1] if len(args) > 1 else kw.get('size')
        if not isinstance(n, int) or isinstance(n, bool):
            raise Unsupported("np.random.exponential with a symbolic number of draws")
        k = st.vars.get('__ndraws__', 0)              # per-path number of calls so far
        st.vars['__ndraws__'] = k + 1
        dv = getattr(self.ctx, 'draw_values', None)
        if dv is not None:
            # concrete replay: the k-th call returns the k-th recorded array (missing draws: 0)
            rec = list(dv[k]) if k < len(dv) else []
            vals = [num(rec[i]) if i < len(rec) else 0 for i in range(n)]
        else:
            vals = [z3.Real('draw%d_%d' % (k, i)) for i in range(n)]
            for v in vals:
                pc.assume(v >= 0)
        return st.alloc(vals, n, "exponential@%d" % node.lineno)

    def bi_np_insert(self, args, kw, st, pc, node):
        base, idx, new = self._elems(args[0], st, pc), args[1], self._elems(args[2], st, pc)
        if not isinstance(idx, int):
            raise Unsupported("np.insert at symbolic position")
        vals = base[:idx] + new + base[idx:]
        return st.alloc(vals, len(vals), "insert@%d" % node.lineno)

    def bi_np_sqrt(self, args, kw, st, pc, node):
        x = self.need_finite(args[0], pc, 'sqrt', node)
        self.oblige("sqrt-of-nonnegative@%d" % node.lineno, pc, cmp('>=', x, 0))
        if isinstance(x, (int, Fraction)) and x == 0:
            return 0
        r = fresh('sqrt', R)
        pc.assume(z3.And(r >= 0, r * r == toR(x)))      # assumed contract of np.sqrt over the reals
        return r

    def bi_np_searchsorted(self, args, kw, st, pc, node):
        """assumed numpy contract: for sorted a, side='left': #elements < v ; side='right': #elements <= v"""
        a, v = args[0], args[1]
        side = kw.get('side', args[2] if len(args) > 2 else 'left')
        if isinstance(v, (ArrV, LazyArr, list, tuple)):
            vs = self._elems(v, st, pc)
            A_ = st.acc(a)
            if self.mode == 'B' and isinstance(a.n, int) and kw.get('sorter') is None:
                # bounded mode: the count is made concrete by demanding each comparison (decided by the path condition
                # - the array is sorted, so at most len(a)+1 outcomes - or forked)
                out = []
                for x in vs:
                    x = self.need_finite(x, pc, 'searchsorted', node)
                    cnt = 0
                    for k in range(a.n):
                        if self.demand_bool(cmp('<', A_[k], x) if side == 'left' else cmp('<=', A_[k], x), pc):
                            cnt += 1
                    out.append(cnt)
                return st.alloc(out, len(out), "searchsorted@%d" % node.lineno)
            out = [self.bi_np_searchsorted([a, x] + list(args[2:]), kw, st, pc, node) for x in vs]
            return st.alloc(out, len(out), "searchsorted@%d" % node.lineno)
        v = self.need_finite(v, pc, 'searchsorted', node)
        A = st.acc(a)
        n = a.n
        if isinstance(n, int) and all(not is_z3(A[k]) for k in range(n)) and not is_z3(v):
            vals = [A[k] for k in range(n)]
            return sum(1 for x in vals if (x < v if side == 'left' else x <= v))
        r = fresh('ss', I)
        below = (lambda k: cmp('<', A[k], v)) if side == 'left' else (lambda k: cmp('<=', A[k], v))
        pc.assume(band(r >= 0, r <= toI(n)))
        pc.assume(forall(0, n, lambda k: implies(toI(k) < r if not isinstance(k, int) else (k < r), below(k)), name='q'))
        pc.assume(forall(0, n, lambda k: implies(toI(k) >= r if not isinstance(k, int) else (k >= r), bnot(below(k))), name='q'))
        return r

    def bi_np_isclose(self, args, kw, st, pc, node):
        """assumed numpy contract: |a - b| <= atol + rtol * |b|  (defaults rtol=1e-05, atol=1e-08)"""
        a, b = args[0], args[1]
        rtol = kw.get('rtol', Fraction(1, 100000))
        atol = kw.get('atol', Fraction(1, 100000000))

        def close(x, y):
            x, y = split(x)[0], split(y)[0]
            return cmp('<=', rabs(arith('-', x, y)), arith('+', atol, arith('*', rtol, rabs(y))))
        aa, ab = isinstance(a, (ArrV, LazyArr)), isinstance(b, (ArrV, LazyArr))
        if aa or ab:
            n_ = a.n if aa else b.n
            return LazyArr(n_, lambda k: close(st.elem(a, k) if aa else a, st.elem(b, k) if ab else b))
        return close(a, b)

    def bi_np_array_equal(self, args, kw, st, pc, node):
        """same shape and all elements equal (different lengths: False, no error)"""
        a, b = args[0], args[1]
        if not (isinstance(a, (ArrV, LazyArr)) and isinstance(b, (ArrV, LazyArr))):
            raise Unsupported("np.array_equal of non-arrays")
        same_n = cmp('==', a.n, b.n)
        if same_n is False:
            return False
        if isinstance(a.n, int) and isinstance(b.n, int):
            return band(*[cmp('==', split(st.elem(a, k))[0], split(st.elem(b, k))[0]) for k in range(a.n)])
        if self.mode == 'P':
            k = fresh('keq', I)
            return z3.And(toB(same_n), z3.ForAll([k], z3.Implies(z3.And(k >= 0, k < toI(a.n)), split(st.elem(a, k))[0] == split(st.elem(b, k))[0])))
        raise Unsupported("np.array_equal over symbolic length")

    def bi_np_allclose(self, args, kw, st, pc, node):
        """np.all(np.isclose(a, b)); arrays of different length do not broadcast here: a run-time error in numpy"""
        a, b = args[0], args[1]
        if isinstance(a, (ArrV, LazyArr)) and isinstance(b, (ArrV, LazyArr)):
            self.oblige("allclose-shape@%d" % node.lineno, pc, cmp('==', a.n, b.n))
        return self.bi_np_all([self.bi_np_isclose(args, kw, st, pc, node)], {}, st, pc, node)

    def bi_np_any(self, args, kw, st, pc, node):
        a = args[0]
        if isinstance(a, (ArrV, LazyArr)):
            if not isinstance(a.n, int):
                if self.mode == 'P':
                    k = fresh('kany', I)
                    return z3.Exists([k], z3.And(k >= 0, k < toI(a.n), toB(self.truth(st.elem(a, k), st, pc, node))))
                raise Unsupported("np.any over symbolic length")
            return bor(*[self.truth(st.elem(a, k), st, pc, node) for k in range(a.n)])
        return self.truth(a, st, pc, node)

    def bi_np_diff(self, args, kw, st, pc, node):
        a = args[0]
        if not isinstance(a, (ArrV, LazyArr)):
            raise Unsupported("np.diff of %r" % type(a).__name__)
        return LazyArr(arith('-', a.n, 1), lambda k: arith('-', st.elem(a, arith('+', k, 1)), st.elem(a, k)))

    def bi_np_logical_and(self, args, kw, st, pc, node):
        return self.bool_elementwise('and', args[0], args[1], st, pc, node)

    def bool_elementwise(self, op, a, b, st, pc, node):
        aa, ab = isinstance(a, (ArrV, LazyArr)), isinstance(b, (ArrV, LazyArr))
        f = band if op == 'and' else bor
        if aa or ab:
            n_ = a.n if aa else b.n
            return LazyArr(n_, lambda k: f(self.truth(st.elem(a, k) if aa else a, st, pc, node), self.truth(st.elem(b, k) if ab else b, st, pc, node)))
        return f(self.truth(a, st, pc, node), self.truth(b, st, pc, node))

    def bi_np_all(self, args, kw, st, pc, node):
        a = args[0]
        if isinstance(a, (ArrV, LazyArr)):
            if not isinstance(a.n, int):
                if self.mode == 'P':
                    k = fresh('kall', I)
                    return z3.ForAll([k], z3.Implies(z3.And(k >= 0, k < toI(a.n)), toB(self.truth(st.elem(a, k), st, pc, node))))
                raise Unsupported("np.all over symbolic length")
            return band(*[self.truth(st.elem(a, k), st, pc, node) for k in range(a.n)])
        return self.truth(a, st, pc, node)

    def bi_np_sum(self, args, kw, st, pc, node):
        a = args[0]
        if isinstance(a, (list, tuple)):
            r = 0
            for x in a:
                r = arith('+', r, x)
            return r
        if isinstance(a.n, int):
            r = 0
            for k in range(a.n):
                x = st.elem(a, k)
                if is_z3(x) and x.sort() == B:
                    x = z3.If(x, z3.IntVal(1), z3.IntVal(0))
                r = arith('+', r, x)
            return r
        if self.mode == 'P' and isinstance(a, (ArrV, LazyArr)):
            # assumed contract of np.sum over a sequence of symbolic length: the finite sum, named SIGMA(summand, length)
            k = z3.Int('ks!sum%d' % node.lineno)
            e0 = st.elem(a, k)
            if isinstance(e0, bool) or (is_z3(e0) and e0.sort() == B):
                # sum of a boolean sequence = number of true entries: assumed contract  r >= 0, r <= length and
                # (r > 0  <=>  some entry is true) - all that `sum(mask) > 0` needs
                r = fresh('count', I)
                inr = z3.And(k >= 0, k < toI(a.n))
                pc.assume(z3.And(r >= 0, r <= toI(a.n)))
                pc.assume((r > 0) == z3.Exists([k], z3.And(inr, toB(e0))))
                return r
            t, f = split(e0)
            if f is not True:
                self.oblige("finite-summands:np.sum@%d" % node.lineno, pc, z3.ForAll([k], z3.Implies(z3.And(k >= 0, k < toI(a.n)), toB(f))))
            return SIGMA(z3.Lambda([k], toR(t)), toI(a.n))
        raise Unsupported("np.sum over symbolic length (needs a Sigma model)")
    bi_sum = bi_np_sum

    # ------------------------------------------------------------------ stores
    def check_frame(self, bid, st, pc, node):
        b = st.heap[bid]
        local = b.local if isinstance(b, Buf) else b.get('__local__', False)
        if not local and bid not in self.modifies:
            self.oblige("frame:store-to-input:%s@%d" % (getattr(b, 'name', bid), node.lineno), pc, False)

    def store_elem(self, a, i, val, st, pc, node):
        if not isinstance(a, ArrV):
            raise Unsupported("store into non-array")
        self.check_frame(a.buf, st, pc, node)
        b = st.heap[a.buf]
        idx = arith('+', a.off, arith('*', i, a.stride) if a.stride != 1 else i)
        if isinstance(val, bool):
            val = int(val)
        if b.is_list():
            if not isinstance(idx, int):
                raise Unsupported("symbolic store index into concrete buffer")
            nb = b.clone()
            nb.data[idx] = val
            st.heap[a.buf] = nb
            return
        t, f = split(val)
        nb = b.clone()
        nb.data = z3.Store(b.data, toI(idx), toR(t))
        if b.fin is not None:
            nb.fin = z3.Store(b.fin, toI(idx), toB(f))
        elif f is not True:
            self.oblige("finite-store:%s@%d" % (b.name, node.lineno), pc, f)
        st.heap[a.buf] = nb

    def store_slice(self, a, lo, hi, step, src, st, pc, node):
        self.check_frame(a.buf, st, pc, node)
        b = st.heap[a.buf]
        n = arith('-', hi, lo)
        if step != 1:
            if not isinstance(n, int):
                if self.mode == 'P' and isinstance(step, int) and step > 1:
                    return self.store_strided_P(a, lo, hi, step, src, st, pc, node)
                raise Unsupported("strided store of symbolic length")
            n = (n + step - 1) // step
        scalar = not isinstance(src, (ArrV, LazyArr, list, tuple))
        if isinstance(src, (list, tuple)):
            lst = list(src)
            src = LazyArr(len(lst), lambda k, lst=lst: lst[k])
        if not scalar:
            self.oblige("slice-store-shape:%s@%d" % (ast.unparse(node)[:40], node.lineno), pc, cmp('==', n, src.n))
        if b.is_list():
            if not (isinstance(lo, int) and isinstance(n, int) and isinstance(a.off, int)):
                raise Unsupported("symbolic slice store into concrete buffer")
            if (not scalar) and isinstance(src.n, int) and src.n != n:
                raise PathAbort()
            vals = [src if scalar else st.elem(src, k) for k in range(n)]
            nb = b.clone()
            for k in range(n):
                nb.data[a.off + (lo + k * step) * a.stride] = vals[k]
            st.heap[a.buf] = nb
            return
        if step != 1 or a.stride != 1:
            raise Unsupported("strided store in P mode")
        new = fresh(b.name.split('@')[0] or 'sl', ARR)
        k = fresh('ks', I)
        base = arith('+', a.off, lo)
        sv = src if scalar else st.elem(src, k - toI(base))
        t, f = split(sv)
        inside = z3.And(toI(base) <= k, k < toI(arith('+', a.off, hi)))
        pc.assume(z3.ForAll([k], z3.Select(new, k) == z3.If(inside, toR(t), z3.Select(b.data, k))))
        nb = b.clone()
        nb.data = new
        if b.fin is not None:
            nf = fresh('fin', FARR)
            pc.assume(z3.ForAll([k], z3.Select(nf, k) == z3.If(inside, toB(f), z3.Select(b.fin, k))))
            nb.fin = nf
        elif f is not True:
            self.oblige("finite-store:%s@%d" % (b.name, node.lineno), pc,
                        z3.ForAll([k], z3.Implies(inside, f)))
        st.heap[a.buf] = nb

    def store_strided_P(self, a, lo, hi, step, src, st, pc, node):
        """a[lo:hi:step] = src for symbolic bounds (P mode): cell lo + q*step receives src[q]"""
        self.check_frame(a.buf, st, pc, node)
        b = st.heap[a.buf]
        if b.is_list() or a.stride != 1:
            raise Unsupported("strided store into a concrete / strided buffer")
        lo_, hi_ = toI(lo), toI(hi)
        cnt = z3.If(hi_ > lo_, (hi_ - lo_ + (step - 1)) / step, z3.IntVal(0))       # integer division: number of cells written
        scalar = not isinstance(src, (ArrV, LazyArr))
        if not scalar:
            self.oblige("slice-store-shape:%s@%d" % (ast.unparse(node)[:40], node.lineno), pc, cnt == toI(src.n))
        new = fresh(b.name.split('@')[0] or 'sl', ARR)
        k = fresh('ks', I)
        base = toI(arith('+', a.off, lo))
        top = toI(arith('+', a.off, hi))
        q = (k - base) / step
        sv = src if scalar else st.elem(src, q)
        t, f = split(sv)
        hit = z3.And(base <= k, k < top, (k - base) % step == 0)
        pc.assume(z3.ForAll([k], z3.Select(new, k) == z3.If(hit, toR(t), z3.Select(b.data, k))))
        nb = b.clone()
        nb.data = new
        if b.fin is not None:
            nf = fresh('fin', FARR)
            pc.assume(z3.ForAll([k], z3.Select(nf, k) == z3.If(hit, toB(f), z3.Select(b.fin, k))))
            nb.fin = nf
        elif f is not True:
            self.oblige("finite-store:%s@%d" % (b.name, node.lineno), pc, z3.ForAll([k], z3.Implies(hit, f)))
        st.heap[a.buf] = nb

    def assign(self, tgt, val, st, pc):
        if isinstance(tgt, ast.Name):
            st.vars[tgt.id] = val
            return
        if isinstance(tgt, (ast.Tuple, ast.List)):
            if isinstance(val, (ArrV, LazyArr)) and isinstance(val.n, int):
                val = tuple(st.elem(val, k) for k in range(val.n))
            if not isinstance(val, (tuple, list)) or len(val) != len(tgt.elts):
                raise Unsupported("unpacking at line %d" % tgt.lineno)
            for t, v in zip(tgt.elts, val):
                self.assign(t, v, st, pc)
            return
        if isinstance(tgt, ast.Subscript):
            a = self.ev(tgt.value, st, pc)
            if isinstance(a, list):
                i = self.ev(tgt.slice, st, pc)
                a[i] = val  # python list store (bounded mode only; lists are path-local values)
                return
            if not isinstance(a, ArrV):
                raise Unsupported("store target at line %d" % tgt.lineno)
            if isinstance(tgt.slice, ast.Slice):
                lo, hi, step = self.slice_of(tgt.slice, a.n, st, pc, tgt)
                self.store_slice(a, lo, hi, step, val, st, pc, tgt)
                return
            i = self.ev(tgt.slice, st, pc)
            if isinstance(i, (ArrV, LazyArr)) and self.mode == 'B' and isinstance(i.n, int) and isinstance(a.n, int):
                idx = [st.elem(i, k) for k in range(i.n)]
                scalar = not isinstance(val, (ArrV, LazyArr, list, tuple))
                if idx and all(isinstance(x, bool) or (is_z3(x) and x.sort() == B) for x in idx) or (not idx and False):
                    # boolean mask store: a[mask] = value(s)
                    pos = [k for k in range(len(idx)) if self.demand_bool(idx[k], pc)]
                elif all(isinstance(x, int) and not isinstance(x, bool) for x in idx):
                    pos = idx
                else:
                    raise Unsupported("fancy-index store at line %d" % tgt.lineno)
                src = None if scalar else self._elems(val, st, pc)
                if src is not None:
                    self.oblige("fancy-store-shape@%d" % tgt.lineno, pc, len(src) == len(pos))
                for n_, k in enumerate(pos):
                    k = self.norm_index(k, a.n)
                    self.bounds(k, a.n, pc, "store " + ast.unparse(tgt)[:40], tgt)
                    if not (0 <= k < a.n):
                        raise PathAbort()
                    self.store_elem(a, k, val if scalar else src[n_], st, pc, tgt)
                return
            if isinstance(i, (ArrV, LazyArr, list)):
                raise Unsupported("fancy-index store at line %d" % tgt.lineno)
            i = self.need_finite(i, pc, 'index', tgt)
            i = self.norm_index(i, a.n)
            self.bounds(i, a.n, pc, "store " + ast.unparse(tgt)[:40], tgt)
            if isinstance(i, int) and isinstance(a.n, int) and not (0 <= i < a.n):
                raise PathAbort()
            if isinstance(val, (ArrV, LazyArr)):
                raise Unsupported("array stored into a cell")
            self.store_elem(a, i, val, st, pc, tgt)
            return
        if isinstance(tgt, ast.Attribute):
            o = self.ev(tgt.value, st, pc)
            if not isinstance(o, Rec):
                raise Unsupported("attribute store at line %d" % tgt.lineno)
            f = st.heap[o.id]
            decl = f.get('__declared__')
            if not f.get('__local__', False) and o.id not in self.modifies and (decl is None or tgt.attr in decl):
                # (attributes outside the state the contract declares - private caches and the like - may be written:
                #  whether such state is harmless is decided by the history checks, not by the frame)
                self.oblige("frame:attr-store:%s@%d" % (tgt.attr, tgt.lineno), pc, False)
            nf = dict(f)
            nf[tgt.attr] = val
            st.heap[o.id] = nf
            return
        raise Unsupported("assignment target %s" % type(tgt).__name__)

    # ------------------------------------------------------------------ statements
    def exec_block(self, stmts, st, pc):
        paths = [(st, pc, None)]
        for s in stmts:
            nxt = []
            for (st1, pc1, out) in paths:
                if out is not None:
                    nxt.append((st1, pc1, out))
                    continue
                try:
                    nxt.extend(self.exec_stmt(s, st1, pc1))
                except PathAbort:
                    pass
            paths = nxt
            if len(paths) > self.max_paths:
                raise Unsupported("path explosion (> %d paths)" % self.max_paths)
        return paths

    def exec_stmt(self, s, st, pc):
        m = getattr(self, 'st_' + type(s).__name__, None)
        if m is None:
            raise Unsupported("statement %s at line %d" % (type(s).__name__, s.lineno))
        if self.mode != 'B' or self.expr_depth > 0:
            # inside a callee that is being evaluated as part of an expression, a fork request travels up to the
            # enclosing statement of the function under verification, which is then re-executed under both outcomes
            return m(s, st, pc)
        st0, pc0 = st.copy(), pc.copy()
        try:
            return m(s, st, pc)
        except ForkRequest as fr:
            out = []
            self.nforks += 1
            for c in (fr.cond, bnot(fr.cond)):
                p = pc0.plus(c)
                if self.feasible(p):
                    out += self.exec_stmt(s, st0.copy(), p)
            return out

    def demand_bool(self, c, pc):
        """concrete truth value of a condition in bounded mode (decided by the path condition, or fork)"""
        if isinstance(c, bool):
            return c
        from .harness import entailed
        if entailed(pc.hyp(), c, 2000):
            return True
        if entailed(pc.hyp(), bnot(c), 2000):
            return False
        raise ForkRequest(c)

    def st_Expr(self, s, st, pc):
        if isinstance(s.value, ast.Constant):
            return [(st, pc, None)]
        mt = self.stmt_method_target(s.value, st)
        if mt is not None:
            args = [self.ev(a, st, pc) for a in s.value.args]
            kw = {k.arg: self.ev(k.value, st, pc) for k in s.value.keywords}
            return [(st2, pc2, None) for (st2, pc2, rv) in self.method_paths(mt[0], mt[1], args, kw, st, pc, s)]
        self.ev(s.value, st, pc)
        return [(st, pc, None)]

    def st_Pass(self, s, st, pc):
        return [(st, pc, None)]

    def st_Import(self, s, st, pc):
        return [(st, pc, None)]

    def st_ImportFrom(self, s, st, pc):
        mod = s.module or ''
        if 'cython.cython_' in mod or mod.startswith('cython_'):
            if self.config != 'compiled':
                raise PyRaise('ImportError')
            rel = 'pyspike/cython/%s.pyx' % mod.split('.')[-1]
        elif mod.endswith('python_backend'):
            rel = 'pyspike/cython/%s.py' % mod.split('.')[-1]
        else:
            return [(st, pc, None)]
        for a in s.names:
            st.vars[a.asname or a.name] = FuncRef(rel, a.name)
        return [(st, pc, None)]

    def st_Try(self, s, st, pc):
        if s.finalbody or s.orelse:
            raise Unsupported("try/finally/else")
        st0, pc0 = st.copy(), pc.copy()
        try:
            return self.exec_block(s.body, st, pc)
        except PyRaise as ex:
            for h in s.handlers:
                tname = ast.unparse(h.type) if h.type is not None else None
                if tname is None or tname == ex.name or tname == 'Exception':
                    return self.exec_block(h.body, st0, pc0)
            raise

    def st_FunctionDef(self, s, st, pc):
        st.vars[s.name] = Closure(s, dict(st.vars))
        return [(st, pc, None)]

    def concretize(self, v, pc, limit=64):
        """bounded mode keeps integers concrete: enumerate the feasible values of a symbolic Int under pc"""
        vals = []
        sol = z3.Solver()
        sol.set('timeout', 10000)
        for h in pc.hyp():
            sol.add(h)
        while len(vals) <= limit:
            r = sol.check()
            if r == z3.unsat:
                return vals
            if r != z3.sat:
                raise Unsupported("cannot enumerate the values of a symbolic integer")
            k = sol.model().eval(v, model_completion=True).as_long()
            vals.append(k)
            sol.add(v != k)
        raise Unsupported("symbolic integer with more than %d feasible values" % limit)

    def callee_paths(self, target, args, kw, st, pc, node):
        """execute a callee that may fork and may allocate: -> [(caller state, pc, return value)]"""
        from . import source
        if isinstance(target, FuncRef):
            mod = source.module(target.rel)
            fdef = mod.func(target.name)
            funcs, classes = mod.funcs, {cn: {m.name: m for m in cd.body if hasattr(m, 'name')} for cn, cd in mod.classes.items()}
        else:
            fdef, funcs, classes = target, self.funcs, self.classes
        key = "%s:%s" % (getattr(target, 'rel', ''), fdef.name)
        if fdef.name in self.call_models:
            return [(st, pc, self.call_models[fdef.name](self, args, kw, st, pc, node))]
        vs = self.bind_args(fdef, args, kw, st, pc)
        callee = State(vs, dict(st.heap))
        saved = (self.funcs, self.classes, self.cur_func)
        self.funcs, self.classes, self.cur_func = funcs, classes, fdef.name
        try:
            paths = self.exec_block(fdef.body, callee, pc.copy())
        finally:
            self.funcs, self.classes, self.cur_func = saved
        out = []
        for (s2, pc2, o2) in paths:
            if o2 is None:
                o2 = ('ret', None)
            if o2[0] == 'raise':
                self.oblige("callee-raises:%s.%s@%d" % (fdef.name, o2[1], node.lineno), pc2, False)
                continue
            if o2[0] != 'ret':
                raise Unsupported("callee %s ends with %s" % (fdef.name, o2[0]))
            out.append((State(dict(st.vars), s2.heap), pc2, o2[1]))
        return out

    def method_paths(self, rec, mname, args, kw, st, pc, node):
        """execute a method of an object in the context of its class' home module (may fork, may change the heap)"""
        from . import source
        mod = source.module(CLASS_HOME[rec.cls])
        fdef = mod.func(mname, rec.cls)
        saved = (self.funcs, self.classes, self.cur_func)
        self.funcs = mod.funcs
        self.classes = {cn: {m.name: m for m in cd.body if hasattr(m, 'name')} for cn, cd in mod.classes.items()}
        try:
            return self.callee_paths(fdef, [rec] + list(args), kw, st, pc, node)
        finally:
            self.funcs, self.classes, self.cur_func = saved

    def stmt_method_target(self, value, st):
        """statement-level `obj.method(...)` / `obj(...)` on an object whose class is not in the current module"""
        if not isinstance(value, ast.Call):
            return None
        f = value.func
        if isinstance(f, ast.Name) and isinstance(st.vars.get(f.id), Rec) and st.vars[f.id].cls in CLASS_HOME and st.vars[f.id].cls not in self.classes:
            return st.vars[f.id], '__call__'
        if isinstance(f, ast.Attribute) and isinstance(f.value, ast.Name) and isinstance(st.vars.get(f.value.id), Rec):
            r = st.vars[f.value.id]
            if r.cls in CLASS_HOME and (r.cls not in self.classes or (self.mode == 'B' and f.attr in self.classes[r.cls])):
                # (a method of the class being executed, called at statement level, may update the object: fork per path)
                return r, f.attr
        return None

    def stmt_call_target(self, value, st):
        """the FuncRef a statement-level call goes to, if any"""
        if isinstance(value, ast.Call) and isinstance(value.func, ast.Name):
            nm = value.func.id
            if isinstance(st.vars.get(nm), FuncRef):
                return st.vars[nm]
            if nm in self.funcs and nm not in st.vars and nm not in self.call_models and self.mode == 'B' \
                    and getattr(self, 'bi_' + nm, None) is None:
                return self.funcs[nm]
        return None

    def st_Assign(self, s, st, pc):
        mt = self.stmt_method_target(s.value, st)
        if mt is not None:
            args = [self.ev(a, st, pc) for a in s.value.args]
            kw = {k.arg: self.ev(k.value, st, pc) for k in s.value.keywords}
            out = []
            for (st2, pc2, rv) in self.method_paths(mt[0], mt[1], args, kw, st, pc, s):
                for t in s.targets:
                    self.assign(t, rv, st2, pc2)
                out.append((st2, pc2, None))
            return out
        tgt = self.stmt_call_target(s.value, st)
        if tgt is not None:
            args = [self.ev(a, st, pc) for a in s.value.args]
            kw = {k.arg: self.ev(k.value, st, pc) for k in s.value.keywords}
            out = []
            for (st2, pc2, rv) in self.callee_paths(tgt, args, kw, st, pc, s):
                for t in s.targets:
                    self.assign(t, rv, st2, pc2)
                out.append((st2, pc2, None))
            return out
        v = self.ev(s.value, st, pc)
        if isinstance(v, LazyArr) and self.mode == 'B' and isinstance(v.n, int):
            # numpy evaluates an element-wise expression into a new array: materialise it (it may be stored into later)
            v = st.alloc([v.fn(k) for k in range(v.n)], v.n, "expr@%d" % s.lineno)
        if self.mode == 'B' and (is_int_sorted(v) or (isinstance(v, tuple) and any(is_int_sorted(x) for x in v))):
            items = list(v) if isinstance(v, tuple) else [v]
            combos = [([], pc)]
            for x in items:
                nxt = []
                for (acc, pcx) in combos:
                    if not is_int_sorted(x):
                        nxt.append((acc + [x], pcx))
                        continue
                    for k in self.concretize(x, pcx):
                        nxt.append((acc + [k], pcx.plus(x == k)))
                combos = nxt
            out = []
            for (acc, pcx) in combos:
                st2 = st.copy()
                val = tuple(acc) if isinstance(v, tuple) else acc[0]
                for t in s.targets:
                    self.assign(t, val, st2, pcx)
                out.append((st2, pcx, None))
            return out
        if self.nf_arrays and isinstance(v, ArrV) and len(s.targets) == 1 and isinstance(s.targets[0], ast.Name) \
                and s.targets[0].id in self.nf_arrays:
            b = st.heap[v.buf]
            if b.local and not b.is_list() and b.fin is None:
                st.heap[v.buf] = b.clone(fin=z3.K(I, z3.BoolVal(True)))
        for t in s.targets:
            self.assign(t, v, st, pc)
        return [(st, pc, None)]

    def st_AugAssign(self, s, st, pc):
        op = _BIN.get(type(s.op))
        if op is None:
            raise Unsupported("augmented operator")
        cur = self.ev(s.target, st, pc)
        tgt = self.stmt_call_target(s.value, st)
        if tgt is not None and isinstance(cur, list) and op == '+':
            # lst += f(...): the callee may return lists of different length on different paths -> fork per callee path
            args = [self.ev(a, st, pc) for a in s.value.args]
            kw = {k.arg: self.ev(k.value, st, pc) for k in s.value.keywords}
            out = []
            for (st2, pc2, rv) in self.callee_paths(tgt, args, kw, st, pc, s):
                if not isinstance(rv, list):
                    raise Unsupported("list += non-list at line %d" % s.lineno)
                self.assign(s.target, list(st2.vars[s.target.id] if isinstance(s.target, ast.Name) else cur) + rv, st2, pc2)
                out.append((st2, pc2, None))
            return out
        v = self.ev(s.value, st, pc)
        if isinstance(cur, ArrV):
            # numpy in-place element-wise update of the whole view
            new = self.elementwise(op, cur, v, st, pc, s)
            self.store_slice(cur, 0, cur.n, 1, new, st, pc, s)
            return [(st, pc, None)]
        if isinstance(cur, list) and isinstance(v, list) and op == '+':
            self.assign(s.target, cur + v, st, pc)
            return [(st, pc, None)]
        self.assign(s.target, arith(op, cur, v), st, pc)
        return [(st, pc, None)]

    def st_Assert(self, s, st, pc):
        c = self.truth(self.ev(s.test, st, pc), st, pc, s)
        self.oblige("assert@%d" % s.lineno, pc, c, kind='assert')
        if c is False:
            return []
        return [(st, pc.plus(c), None)]

    def st_Raise(self, s, st, pc):
        exc = ast.unparse(s.exc) if s.exc is not None else 'raise'
        return [(st, pc, ('raise', exc.split('(')[0], s.lineno))]

    def st_Return(self, s, st, pc):
        tgt = self.stmt_call_target(s.value, st) if s.value is not None else None
        if tgt is not None:
            args = [self.ev(a, st, pc) for a in s.value.args]
            kw = {k.arg: self.ev(k.value, st, pc) for k in s.value.keywords}
            return [(st2, pc2, ('ret', rv)) for (st2, pc2, rv) in self.callee_paths(tgt, args, kw, st, pc, s)]
        v = self.ev(s.value, st, pc) if s.value is not None else None
        return [(st, pc, ('ret', v))]

    def st_Break(self, s, st, pc):
        return [(st, pc, ('break',))]

    def st_Continue(self, s, st, pc):
        return [(st, pc, ('continue',))]

    def st_If(self, s, st, pc):
        c = self.truth(self.ev(s.test, st, pc), st, pc, s)
        if c is True:
            return self.exec_block(s.body, st, pc)
        if c is False:
            return self.exec_block(s.orelse, st, pc)
        self.nforks += 1
        out = []
        p1 = pc.plus(c)
        if self.feasible(p1):
            out += self.exec_block(s.body, st.copy(), p1)
        p2 = pc.plus(bnot(c))
        if self.feasible(p2):
            out += self.exec_block(s.orelse, st.copy(), p2)
        return out

    # -- loops ------------------------------------------------------------------------------
    def loop_key(self, node):
        f = self.funcs.get(self.cur_func)
        loops = [n for n in ast.walk(f) if isinstance(n, (ast.While, ast.For))] if f is not None else []
        return (self.cur_func, loops.index(node) + 1 if node in loops else 0)

    def st_While(self, s, st, pc):
        if s.orelse:
            raise Unsupported("while-else")
        key = self.loop_key(s)
        if self.mode == 'B' or key not in self.loop_specs:
            if self.mode != 'B':
                raise Unsupported("loop %s has no invariant" % (key,))
            return self.unroll(lambda st_, pc_: self.truth(self.ev(s.test, st_, pc_), st_, pc_, s),
                               s.body, None, st, pc)
        return self.cut_loop(key, s, st, pc,
                             guard=lambda st_, pc_: self.truth(self.ev(s.test, st_, pc_), st_, pc_, s),
                             body=s.body, counter=None)

    def st_For(self, s, st, pc):
        if s.orelse:
            raise Unsupported("for-else")
        key = self.loop_key(s)
        it = s.iter
        is_range = isinstance(it, ast.Call) and ast.unparse(it.func) in ('range', 'xrange')
        if is_range and isinstance(s.target, ast.Name):
            args = [self.ev(a, st, pc) for a in it.args]
            lo, hi = (0, args[0]) if len(args) == 1 else (args[0], args[1])
            if len(args) > 2:
                raise Unsupported("range step")
            if self.mode == 'P' and key in self.loop_specs:
                # desugared:  v = lo ; while v < hi: body ; v += 1
                v = s.target.id
                st.vars[v] = lo
                return self.cut_loop(key, s, st, pc,
                                     guard=lambda st_, pc_: cmp('<', st_.vars[v], hi),
                                     body=s.body, counter=v)
            if isinstance(lo, int) and isinstance(hi, int):
                seq = list(range(lo, hi))
            else:
                raise Unsupported("for over symbolic range without invariant (%s)" % (key,))
        else:
            seq = self.ev(it, st, pc)
            if isinstance(seq, ArrV) and isinstance(seq.n, int):
                seq = [st.elem(seq, k) for k in range(seq.n)]
            if not isinstance(seq, (list, tuple)):
                raise Unsupported("for over %r" % type(seq).__name__)
        paths = [(st, pc, None)]
        for item in seq:
            nxt = []
            for (st1, pc1, out) in paths:
                if out is not None:
                    nxt.append((st1, pc1, out))
                    continue
                self.assign(s.target, item, st1, pc1)
                for (st2, pc2, o2) in self.exec_block(s.body, st1, pc1):
                    if o2 is not None and o2[0] == 'continue':
                        o2 = None
                    nxt.append((st2, pc2, o2))
            paths = nxt
        return [(a, b, None if (o is not None and o[0] == 'break') else o) for (a, b, o) in paths]

    def unroll(self, guard, body, _unused, st, pc):
        out = []
        work = [(st, pc, 0)]
        it = 0
        bound = getattr(self, 'unroll_bound', None)
        while work:
            it += 1
            if it > 100000:
                raise Unsupported("unrolling does not terminate")
            st1, pc1, depth = work.pop()
            g = guard(st1, pc1)
            if bound is not None and depth >= bound and g is not False:
                # stated bound of a data-dependent loop: executions with more iterations are not explored
                self.ncut = getattr(self, 'ncut', 0) + 1
                if g is True:
                    continue
                pf = pc1.plus(bnot(g))
                if self.feasible(pf):
                    out.append((st1.copy(), pf, None))
                continue
            if g is False:
                out.append((st1, pc1, None))
                continue
            if g is True:
                branches = [pc1]
            else:
                self.nforks += 1
                branches = []
                pt = pc1.plus(g)
                if self.feasible(pt):
                    branches.append(pt)
                pf = pc1.plus(bnot(g))
                if self.feasible(pf):
                    out.append((st1.copy(), pf, None))
            for pcb in branches:
                for (st2, pc2, o2) in self.exec_block(body, st1.copy(), pcb):
                    if o2 is None or o2[0] == 'continue':
                        work.append((st2, pc2, depth + 1))
                    elif o2[0] == 'break':
                        out.append((st2, pc2, None))
                    else:
                        out.append((st2, pc2, o2))
        return out

    def havoc_value(self, name, old, st):
        if isinstance(old, ArrV):
            b = st.heap[old.buf]
            nb = b.clone()
            if b.is_list():
                nb.data = [fresh(name, R) for _ in b.data]
            else:
                nb.data = fresh(name, ARR)
                if b.fin is not None:
                    nb.fin = fresh(name + '_fin', FARR)
            st.heap[old.buf] = nb
            return old
        if isinstance(old, bool):
            return fresh(name, B)
        if isinstance(old, int) or is_int_sorted(old):
            return fresh(name, I)
        if is_z3(old) and z3.is_array(old):
            return fresh(name, old.sort())
        if is_z3(old) and old.sort() == B:
            return fresh(name, B)
        if isinstance(old, (Fraction, NF)) or is_real_sorted(old):
            return fresh(name, R)
        raise Unsupported("cannot havoc %s = %r" % (name, old))

    def cut_loop(self, key, node, st, pc, guard, body, counter):
        spec = self.loop_specs[key]
        ctx = self.ctx
        lname = "%s.loop%d" % key
        if spec.init is not None:
            spec.init(st, ctx)
        pcx = pc
        for nm, inv in spec.inv:
            f = self.call_spec(inv, st, ctx, lname)
            self.oblige("%s.entry.%s" % (lname, nm), pcx, f, kind='loop')
            if spec.cumulative and f is not True:
                pcx = pcx.plus(f)
        mod = _assigned(body) | set(spec.ghost)
        if counter:
            mod.add(counter)
        st2 = st.copy()
        for v in sorted(mod):
            if v not in st2.vars:
                # first assigned inside the loop: unconstrained real unless the spec says otherwise
                st2.vars[v] = fresh(v, R)
                continue
            st2.vars[v] = self.havoc_value(v, st2.vars[v], st2)
        pc2 = pc.copy()
        for nm, inv in spec.inv:
            pc2.assume(self.call_spec(inv, st2, ctx, lname))
        g = guard(st2, pc2)
        self.loop_cover[lname] = True
        out = []
        # body branch
        for (st3, pc3, o3) in self.exec_block(body, st2.copy(), pc2.plus(g)):
            if o3 is not None:
                if o3[0] in ('ret', 'raise'):
                    out.append((st3, pc3, o3))
                    continue
                raise Unsupported("break/continue inside an invariant-cut loop")
            if counter:
                st3.vars[counter] = arith('+', st3.vars[counter], 1)
            if spec.step is not None:
                spec.step(st3, ctx)
            pcx = pc3
            for nm, inv in spec.inv:
                f = self.call_spec(inv, st3, ctx, lname)
                self.oblige("%s.preserve.%s" % (lname, nm), pcx, f, kind='loop')
                if spec.cumulative and f is not True:
                    pcx = pcx.plus(f)
            self.obls.append(Obl("%s.canary" % lname, pc3.hyp(), z3.BoolVal(False), 'canary'))
        out.append((st2, pc2.plus(bnot(g)), None))
        return out

    def call_spec(self, fn, st, ctx, where):
        try:
            return fn(st, ctx)
        except KeyError as ex:
            raise Unbound("contract of %s refers to %s, which the current source does not define" % (where, ex))


class PathAbort(Exception):
    """path ends in a definite run-time error that has already been recorded as a failed obligation"""


def run_function(eng, fdef, st, pc):
    eng.cur_func = fdef.name
    return eng.exec_block(fdef.body, st, pc)
