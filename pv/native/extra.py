"""further native families: C17 (SPIKE-Sync filter) with the per-spike indicator kernel replaced by every possible
0/1 outcome (exhaustive over the kernel's output space for the bounded sizes)."""
import itertools
import sys
import types

import numpy as np

T0, T1 = 0.0, 10.0


def _trains(n, m):
    import pyspike
    out = []
    for k in range(n):
        sp = [round(0.7 + 0.9 * k + 2.3 * j, 6) for j in range(m[k])]
        out.append(pyspike.SpikeTrain(sp, [T0, T1]))
    return out


def _install(table, log, compiled):
    """table[(key1,key2)] -> 0/1 vector returned for (train1, train2)"""
    import pyspike
    import pyspike.cython
    from pyspike.cython import python_backend as pb

    def stub(s1, s2, t_start, t_end, max_tau, MRTS=0.):
        k1, k2 = tuple(np.asarray(s1, dtype=float)), tuple(np.asarray(s2, dtype=float))
        log.append((k1, k2, float(t_start), float(t_end), float(max_tau), float(MRTS)))
        return np.array(table[(k1, k2)], dtype=float)
    saved = pb.coincidence_single_python
    pb.coincidence_single_python = stub
    old_warn = pyspike.NoCythonWarn
    pyspike.NoCythonWarn = lambda: None
    name = 'pyspike.cython.cython_profiles'
    had = sys.modules.pop(name, None)
    blocker = None
    if compiled:
        m = types.ModuleType(name)
        m.coincidence_single_profile_cython = stub
        sys.modules[name] = m
        pyspike.cython.cython_profiles = m
    else:
        class _B(object):
            def find_spec(self, nm, path=None, target=None):
                if nm.startswith('pyspike.cython.cython_'):
                    raise ImportError('blocked')
                return None
        blocker = _B()
        sys.meta_path.insert(0, blocker)

    def undo():
        pb.coincidence_single_python = saved
        pyspike.NoCythonWarn = old_warn
        sys.modules.pop(name, None)
        if hasattr(pyspike.cython, 'cython_profiles'):
            delattr(pyspike.cython, 'cython_profiles')
        if had is not None:
            sys.modules[name] = had
        if blocker is not None:
            sys.meta_path.remove(blocker)
    return undo


def run_filter(n, m, bits, thr, compiled, kw):
    """one scenario. bits: dict (i,j)->tuple of 0/1 per spike of train i. -> failure dict or None"""
    import pyspike
    trains = _trains(n, m)
    keys = [tuple(float(x) for x in t.spikes) for t in trains]
    table = {(keys[i], keys[j]): bits[(i, j)] for i in range(n) for j in range(n) if i != j}
    log = []
    before = [(tuple(t.spikes), t.t_start, t.t_end) for t in trains]
    undo = _install(table, log, compiled)
    try:
        try:
            res = pyspike.filter_by_spike_sync(trains, thr, return_removed_spikes=True, **kw)
            res_k = pyspike.filter_by_spike_sync(trains, thr, **kw)
        finally:
            undo()
    except Exception as ex:
        return dict(kind='exception', detail="%s: %s" % (type(ex).__name__, str(ex)[:200]))
    if [(tuple(t.spikes), t.t_start, t.t_end) for t in trains] != before:
        return dict(kind='modified-input', detail='input trains changed')
    kept, removed = res
    if len(kept) != n or len(removed) != n or len(res_k) != n:
        return dict(kind='mismatch', detail='wrong number of output trains')
    for i in range(n):
        cnt = [sum(bits[(i, j)][k] for j in range(n) if j != i) for k in range(m[i])]
        exp_keep = [keys[i][k] for k in range(m[i]) if cnt[k] > thr * (n - 1)]
        exp_rem = [keys[i][k] for k in range(m[i]) if not (cnt[k] > thr * (n - 1))]
        for nm, tr, exp in (('kept', kept[i], exp_keep), ('removed', removed[i], exp_rem), ('kept(no removed requested)', res_k[i], exp_keep)):
            if [float(x) for x in tr.spikes] != exp or tr.t_start != T0 or tr.t_end != T1:
                return dict(kind='mismatch', detail="train %d %s spikes %s on [%s,%s], expected %s (coincidence counts %s, threshold*(N-1)=%s)" % (
                    i, nm, list(tr.spikes), tr.t_start, tr.t_end, exp, cnt, thr * (n - 1)))
    mt = float(kw.get('max_tau') or 0.0)
    M = float(kw.get('MRTS', 0.0))
    want = sorted((keys[i], keys[j], T0, T1, mt, M) for i in range(n) for j in range(n) if i != j)
    got = sorted(log[:len(log) // 2])
    if got != want:
        return dict(kind='mismatch', detail='indicator kernel calls %s differ from one call per ordered pair with the given max_tau/MRTS' % (got[:3],))
    return None


def fam_filter(n, tier):
    tot = 0
    classes = {}
    fails = []
    thrs = sorted(set([0.0, 1.0, 0.5, 0.3] + [k / (n - 1) for k in range(n)]))
    sizes = [tuple([1] * n)] + ([tuple([2] + [1] * (n - 1))] if n <= 3 else [])
    if n >= 3:
        # trains without spikes among the partners (the normalisation stays N-1)
        sizes += [tuple([1] * (n - 1) + [0]), tuple([2] + [1] * (n - 2) + [0])] + ([tuple([1] + [0] * (n - 1))] if n == 3 else [])
    for compiled in (False, True):
        for kwc, kw in (('default', {}), ('max_tau_MRTS', {'max_tau': 0.2, 'MRTS': 0.3})):
            for m in sizes:
                # the indicator against a train without spikes is all zero by the kernel contract (C03): not enumerated
                slots = [(i, j, k) for i in range(n) for j in range(n) if i != j and m[j] > 0 for k in range(m[i])]
                for assign in itertools.product((0, 1), repeat=len(slots)):
                    bits = {}
                    for (i, j, k), b in zip(slots, assign):
                        bits.setdefault((i, j), [0] * m[i])[k] = b
                    for i_ in range(n):
                        for j_ in range(n):
                            if i_ != j_ and (i_, j_) not in bits:
                                bits[(i_, j_)] = [0] * m[i_]
                    bits = {kk: tuple(v) for kk, v in bits.items()}
                    for thr in thrs:
                        tot += 1
                        cls = "filter_by_spike_sync/%s/%s" % (kwc, 'compiled' if compiled else 'fallback')
                        c = classes.setdefault(cls, [0, 0])
                        c[0] += 1
                        r = run_filter(n, m, bits, thr, compiled, kw)
                        if r is not None:
                            c[1] += 1
                            if not any(f['cls'] == cls for f in fails):
                                desc = dict(entry='filter_by_spike_sync', form='list', indices=list(range(n)), empty=[False] * n, kwargs=kwc,
                                            compiled=compiled, spikes_per_train=list(m), threshold=thr,
                                            indicator={"%d,%d" % kk: list(v) for kk, v in bits.items()})
                                fails.append(dict(cls=cls, kind=r['kind'], detail=r['detail'], desc=desc,
                                                  args=[n, list(m), {"%d,%d" % kk: list(v) for kk, v in bits.items()}, thr, compiled, kw]))
    return dict(family='filter', n=n, scenarios=tot, skipped=0, classes=classes, failures=fails,
                samples=[dict(desc='every 0/1 outcome of the per-spike indicator for %d trains, thresholds %s' % (n, thrs))])


def replay_filter(req):
    n, m, bits, thr, compiled, kw = req['args']
    bits = {tuple(int(x) for x in k.split(',')): tuple(v) for k, v in bits.items()}
    r = run_filter(n, tuple(m), bits, thr, compiled, kw)
    return dict(ok=r is None, result=r)


FAMILIES = {'filter': fam_filter, 'filter:replay': replay_filter}


def run_family(name, n, tier):
    return FAMILIES[name](n, tier)


def replay(req):
    return FAMILIES[req['family'] + ':replay'](req)
