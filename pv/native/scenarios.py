"""Bounded plumbing scenarios (B(N)): the real wrappers run on formal terms (formal.py) and every result is
compared structurally with a normal form written from the property statements.  Exhaustive over: number of trains
N <= bound, emptiness pattern of the trains, call form, every ordered index subset of size >= 2, keyword class,
configuration (compiled stubs importable / fallback).  Train contents are generic and never inspected by the
wrappers except through kernels, reconcile, default_thresh, len and masks - so a result for these trains is a
result for all trains (parametricity, DESIGN 4.4)."""
import itertools
import traceback
from fractions import Fraction as Fr

import numpy as np

from . import formal as F
from .formal import LC, Ratio, K, ivkey, pnum, same, has_nan, FProfile

T0, T1 = 0.0, 10.0


def make_spikes(k, empty, disorder=False):
    if empty:
        return []
    if k >= 7:       # many trains (forms_many): keep the spikes inside the recording, all trains distinct
        base = [round(0.31 + 0.27 * k, 6), round(5.2 + 0.13 * k, 6)] + ([round(9.6 + 0.01 * k, 6)] if k % 2 else [])
    else:
        base = [round(0.6 + 0.83 * k + 1.9 * j + 0.07 * k * j, 6) for j in range(2 + (k % 2))]
    if disorder:
        base = [base[-1]] + base[:-1] + [base[0]]      # rotated + one repeated spike time
    return base


def make_trains(pattern, disorder=False):
    import pyspike
    F.W = F.World(T0, T1)
    trains, ids = [], []
    for k, empty in enumerate(pattern):
        src = k
        shift = 0.0
        if isinstance(empty, str):            # 'same<j>': this train repeats the spike times of train j ; 'near<j>': the same
            if empty.startswith('near'):      # times moved by a few 1e-9 (distinct trains that np.isclose / np.allclose call equal)
                shift = (k + 1) * 1e-9
            src, empty = int(empty[4:]), False
        sp = [round(x + shift * (q + 1), 9) for q, x in enumerate(make_spikes(src, empty))]
        tid = F.W.register('s%d' % k, sp)
        ids.append(tid)
        given = [round(x + shift * (q + 1), 9) for q, x in enumerate(make_spikes(src, empty, disorder))] if shift else make_spikes(src, empty, disorder)
        trains.append(pyspike.SpikeTrain(given, [T0, T1], is_sorted=not disorder) if not disorder else _raw_train(given))
    return trains, ids


def _raw_train(spikes):
    import pyspike
    st = pyspike.SpikeTrain([], [T0, T1])
    st.spikes = np.array(spikes, dtype=float)      # deliberately unsorted / with duplicates
    return st


# ----------------------------------------------------------------------------------------------
# oracles: normal forms from the property statements

def params(measure, kw, auto_tag):
    M = kw.get('MRTS', 0.)
    if M == 'auto':
        M = ('T', auto_tag)
    else:
        M = pnum(M)
    if measure == 'isi':
        return (M,)
    if measure == 'spike':
        return (M, bool(kw.get('RI', False)))
    mt = kw.get('max_tau', None)
    return (pnum(0.0 if mt is None else mt), M)


def katom(measure, a, b, kw, auto_tag):
    sg, at = K(measure, a, b, params(measure, kw, auto_tag))
    return sg, at


def pairs_of(sel):
    return [(sel[p], sel[q]) for p in range(len(sel)) for q in range(p + 1, len(sel))]


AUTO_POOL = {'mode': 'selected', 'all': None}
PINNED = set()


def auto_tag_of(sel):
    """trains whose ISIs are pooled for MRTS='auto': the trains of the call. For an `indices` call the C14 reading
    ('same as passing the sub-list') pools the selected trains, the C15 reading pools the whole list."""
    if AUTO_POOL['mode'] == 'list' and AUTO_POOL['all'] is not None:
        return tuple(sorted(set(AUTO_POOL['all'])))
    return tuple(sorted(set(sel)))


def expect_profile(measure, sel, kw):
    """multivariate profile of the selected trains (ids in call order)"""
    tag = auto_tag_of(sel)
    ps = pairs_of(sel)
    lc = LC()
    for (a, b) in ps:
        sg, at = katom(measure, a, b, kw, tag)
        lc = lc + LC({at: Fr(sg)})
    if measure in ('isi', 'spike'):
        return lc * Fr(1, len(ps))
    mp = LC()
    for (a, b) in ps:
        sg, at = katom(measure, a, b, kw, tag)
        mp = mp + LC({at: Fr(1)})
    return [lc, mp]


def expect_distance(measure, sel, kw):
    tag = auto_tag_of(sel)
    iv = ivkey(kw.get('interval'))
    ps = pairs_of(sel)
    if measure in ('isi', 'spike'):
        lc = LC()
        for (a, b) in ps:
            sg, at = katom(measure, a, b, kw, tag)
            lc = lc + LC({('A', at, iv): Fr(1)})
        return lc * Fr(1, len(ps))
    c, m = LC(), LC()
    for (a, b) in ps:
        sg, at = katom(measure, a, b, kw, tag)
        c = c + LC({('C', at, iv): Fr(sg)})
        m = m + LC({('M', at, iv): Fr(1)})
    if measure == 'order' and kw.get('normalize', True) is False and len(sel) == 2:
        return c
    if m.value() == 0:
        return 1.0
    return Ratio(c, m)


def expect_matrix(measure, sel, kw):
    n = len(sel)
    out = [[0 for _ in range(n)] for _ in range(n)]
    for p in range(n):
        for q in range(n):
            if p == q:
                out[p][q] = 1.0 if measure == 'sync' else 0
            elif measure == 'dir':
                out[p][q] = expect_directionality(sel[p], sel[q], kw, auto_tag_of(sel)) if p < q else None
            else:
                kw2 = dict(kw)
                v = expect_distance(measure, [sel[p], sel[q]], kw2) if True else None
                # 'auto' threshold of a matrix call pools the selected trains, not the pair
                if kw.get('MRTS') == 'auto':
                    v = _retag(measure, sel[p], sel[q], kw, auto_tag_of(sel))
                out[p][q] = v
    if measure == 'dir':
        for p in range(n):
            for q in range(p):
                out[p][q] = -out[q][p] if not isinstance(out[q][p], (int, float)) else -out[q][p]
    return out


def _retag(measure, a, b, kw, tag):
    iv = ivkey(kw.get('interval'))
    sg, at = katom(measure, a, b, kw, tag)
    if measure in ('isi', 'spike'):
        return LC({('A', at, iv): Fr(1)})
    c, m = LC({('C', at, iv): Fr(sg)}), LC({('M', at, iv): Fr(1)})
    return 1.0 if m.value() == 0 else Ratio(c, m)


def dparams(kw, tag):
    M = kw.get('MRTS', 0.)
    M = ('T', tag) if M == 'auto' else pnum(M)
    mt = kw.get('max_tau', None)
    return (pnum(0.0 if mt is None else mt), M)


def expect_directionality(a, b, kw, tag=None):
    tag = tag if tag is not None else auto_tag_of([a, b])
    n = F.W.nspikes[a]
    p = dparams(kw, tag)
    tot = LC()
    for k in range(n):
        tot = tot + LC({('d', a, b, p, k): Fr(1)})
    if kw.get('normalize', True):
        if n == 0:
            return 0
        return tot * Fr(1, n)
    return tot


def expect_dir_values(sel, kw):
    tag = auto_tag_of(sel)
    p = dparams(kw, tag)
    out = []
    for i, a in enumerate(sel):
        arr = []
        for k in range(F.W.nspikes[a]):
            tot = LC()
            for j, b in enumerate(sel):
                if j != i:
                    tot = tot + LC({('d', a, b, p, k): Fr(1)})
            arr.append(tot * Fr(1, len(sel) - 1))
        out.append(arr)
    return out


# ----------------------------------------------------------------------------------------------
ENTRY = {
    # name: (measure, kind, accepts)
    'isi_profile': ('isi', 'profile'), 'spike_profile': ('spike', 'profile'),
    'spike_sync_profile': ('sync', 'profile'), 'spike_train_order_profile': ('order', 'profile'),
    'isi_distance': ('isi', 'distance'), 'spike_distance': ('spike', 'distance'),
    'spike_sync': ('sync', 'distance'), 'spike_train_order': ('order', 'distance'),
    'isi_distance_matrix': ('isi', 'matrix'), 'spike_distance_matrix': ('spike', 'matrix'),
    'spike_sync_matrix': ('sync', 'matrix'), 'spike_directionality_matrix': ('dir', 'matrix'),
    'spike_directionality': ('dir', 'dir'), 'spike_directionality_values': ('dir', 'values'),
}

KW_CLASSES = {
    'default': {},
    'MRTS': {'MRTS': 0.3},
    'RI': {'MRTS': 0.3, 'RI': True},
    'max_tau': {'max_tau': 0.2},
    'max_tau_MRTS': {'max_tau': 0.2, 'MRTS': 0.3},
    'interval': {'interval': (2.0, 7.5)},
    'interval_full': {'interval': (0.0, 10.0)},      # exactly the recording: still an interval (open: spikes on the edges do not count for SPIKE-Sync)
    'intervals': {'interval': [(1.0, 3.0), (5.0, 8.5)]},
    'interval_MRTS': {'interval': (2.0, 7.5), 'MRTS': 0.3, 'max_tau': 0.2},
    'auto': {'MRTS': 'auto'},
    'unnormalized': {'normalize': False},
}


def kw_allowed(entry, kwc):
    measure, kind = ENTRY[entry]
    kw = KW_CLASSES[kwc]
    if 'RI' in kw and measure not in ('spike',):
        return False
    if 'max_tau' in kw and measure not in ('sync', 'order', 'dir'):
        return False
    if 'interval' in kw:
        if kind not in ('distance', 'matrix') or measure in ('order', 'dir'):
            return False
        if isinstance(kw['interval'], list) and measure == 'sync' and kind == 'matrix':
            return True
    if 'normalize' in kw and entry not in ('spike_train_order', 'spike_directionality', 'spike_directionality_matrix'):
        return False
    if measure in ('isi',) and 'max_tau' in kw:
        return False
    return True


def call(entry, form, trains, sel_idx, kw):
    """perform the call in the given form; sel_idx: positions into `trains` (call order)"""
    import pyspike
    import pyspike.spike_directionality as sd
    f = getattr(pyspike, entry) if hasattr(pyspike, entry) else getattr(sd, entry)
    sub = [trains[i] for i in sel_idx]
    if form == 'two_args':
        return f(sub[0], sub[1], **kw)
    if form == 'varargs':
        return f(*sub, **kw)
    if form == 'sublist':
        return f(sub, **kw)
    if form == 'indices':
        return f(trains, indices=list(sel_idx), **kw)
    if form == 'indices_np':
        return f(trains, indices=np.array(sel_idx), **kw)
    raise ValueError(form)


def forms_for(entry, nsel, kwc=None):
    measure, kind = ENTRY[entry]
    if kwc == 'unnormalized' and entry == 'spike_train_order':
        return ['two_args'] if nsel == 2 else []      # `normalize` of the multivariate form is not part of any property
    if entry == 'spike_directionality':
        return ['two_args'] if nsel == 2 else []
    if kind == 'matrix':
        return ['sublist', 'indices']
    if entry == 'spike_directionality_values':
        return ['varargs', 'sublist', 'indices'] if nsel >= 2 else []
    fs = ['sublist', 'indices']
    if nsel == 2:
        fs.append('two_args')
    else:
        fs.append('varargs')
    return fs


def expected(entry, sel, kw):
    measure, kind = ENTRY[entry]
    if kind == 'profile':
        return expect_profile(measure, sel, kw)
    if kind == 'distance':
        return expect_distance(measure, sel, kw)
    if kind == 'matrix':
        return expect_matrix(measure, sel, kw)
    if kind == 'dir':
        return expect_directionality(sel[0], sel[1], kw)
    if kind == 'values':
        return expect_dir_values(sel, kw)


def normalise_result(entry, r):
    measure, kind = ENTRY[entry]
    if isinstance(r, FProfile):
        if r.kind == 'disc':
            return [r.lc, r.mp]
        return r.lc
    if kind == 'matrix':
        return [list(row) for row in r]
    if kind == 'values':
        return [list(a) for a in r]
    return r


def show(x):
    if isinstance(x, list):
        return '[' + ', '.join(show(y) for y in x) + ']'
    return repr(x)


def snapshot(trains):
    return [(tuple(float(x) for x in t.spikes), t.t_start, t.t_end) for t in trains]


SAME_WINDOW_ENTRIES = ('spike_sync', 'spike_sync_profile', 'spike_train_order', 'spike_train_order_profile',
                       'spike_directionality_values', 'spike_directionality_matrix')


def run_same_window(form, pattern, sel_idx, kwc, compiled):
    """C04 'using the same coincidences as SPIKE-Sync': for one and the same call (selection, keywords) every entry point
    of the SPIKE-Sync / order / directionality family must hand the SAME window parameters (max_tau, MRTS) to the
    kernels for a given pair of trains"""
    kw = dict(KW_CLASSES[kwc])
    desc = dict(entry='@same_window', form=form, empty=[x is True for x in pattern], indices=list(sel_idx), kwargs=kwc, compiled=bool(compiled))
    seen = {}
    for entry in SAME_WINDOW_ENTRIES:
        if form not in forms_for(entry, len(sel_idx), kwc) or not kw_allowed(entry, kwc):
            continue
        trains, ids = make_trains(pattern)
        AUTO_POOL['all'] = ids if form in ('indices', 'indices_np') else None
        F.install(compiled)
        try:
            try:
                call(entry, form, trains, sel_idx, dict(kw))
                calls = list(F.W.calls)
            finally:
                F.unpatch()
        except NotImplementedError:
            continue
        except Exception as ex:
            return dict(ok=False, kind='exception', detail="%s: %s: %s" % (entry, type(ex).__name__, str(ex)[:200]), desc=desc)
        for a in calls:
            if a[0] == 'K':
                pair, params = frozenset((repr(a[2]), repr(a[3]))), tuple(a[4])
            elif a[0] == 'd':
                pair, params = frozenset((repr(a[1]), repr(a[2]))), tuple(a[3])
            else:
                continue
            seen.setdefault(pair, {}).setdefault(repr(params), set()).add(entry)
    bad = {tuple(sorted(p)): {k: sorted(v) for k, v in d.items()} for p, d in seen.items() if len(d) > 1}
    if bad:
        p0 = sorted(bad)[0]
        return dict(ok=False, kind='mismatch', desc=desc,
                    detail='pair %s reaches the kernels with different window parameters (max_tau, MRTS) depending on the entry point: %s' % (p0, bad[p0]))
    return dict(ok=True, desc=desc, got='%d pairs, one parameter set each' % len(seen))


def run_inplace(entry, form, pattern, sel_idx, kwc, compiled):
    """history: call ; change a spike time of the first selected train IN PLACE (same array object, still a valid
    train) ; call again - the second result must be the one for the CURRENT spike times (nothing may survive from the
    first call: caches keyed by object identity, prepared copies kept on the SpikeTrain)"""
    kw = dict(KW_CLASSES[kwc])
    trains, ids = make_trains(pattern)
    desc = dict(entry='@inplace:' + entry, form=form, empty=[x is True for x in pattern], indices=list(sel_idx), kwargs=kwc, compiled=bool(compiled))
    AUTO_POOL['all'] = ids if form in ('indices', 'indices_np') else None
    F.install(compiled)
    try:
        try:
            call(entry, form, trains, sel_idx, dict(kw))
            t = trains[sel_idx[0]]
            t.spikes[len(t.spikes) - 1] -= 0.125                      # in place; stays sorted and inside the recording
            ids = list(ids)
            ids[sel_idx[0]] = F.W.register('s%dm' % sel_idx[0], [float(x) for x in t.spikes])
            if AUTO_POOL['all'] is not None:
                AUTO_POOL['all'] = ids
            F.W.calls[:] = []
            r = call(entry, form, trains, sel_idx, dict(kw))
        finally:
            F.unpatch()
    except NotImplementedError as ex:
        return dict(ok=True, skipped=str(ex), desc=desc)
    except Exception as ex:
        return dict(ok=False, kind='exception', detail="%s: %s" % (type(ex).__name__, str(ex)[:200]), desc=desc)
    got = normalise_result(entry, r)
    exp = expected(entry, [ids[i] for i in sel_idx], kw)
    if not same(got, exp):
        return dict(ok=False, kind='mismatch', desc=desc,
                    detail='second call after an in-place change of a spike time: got %s  expected %s' % (show(got)[:300], show(exp)[:300]))
    return dict(ok=True, desc=desc, got=show(got)[:200])


def run_one(entry, form, pattern, sel_idx, kwc, compiled, disorder=False, reconcile_off=False):
    """-> dict(ok, kind, detail). kinds: mismatch | exception | nan | modified-input"""
    if entry == '@same_window':
        return run_same_window(form, pattern, sel_idx, kwc, compiled)
    if entry.startswith('@inplace:'):
        return run_inplace(entry[len('@inplace:'):], form, pattern, sel_idx, kwc, compiled)
    kw = dict(KW_CLASSES[kwc])
    trains, ids = make_trains(pattern, disorder)
    sel = [ids[i] for i in sel_idx]
    AUTO_POOL['all'] = ids if form in ('indices', 'indices_np') else None
    desc = dict(entry=entry, form=form, empty=[x is True for x in pattern], indices=list(sel_idx), kwargs=kwc,
                compiled=bool(compiled), disorder=disorder, reconcile_off=reconcile_off)
    if any(isinstance(x, str) for x in pattern):
        desc['repeats'] = [x if isinstance(x, str) else None for x in pattern]
    before = snapshot(trains)
    F.install(compiled)
    try:
        try:
            kcall = dict(kw)
            if reconcile_off:
                kcall['Reconcile'] = False
            r = call(entry, form, trains, sel_idx, kcall)
        finally:
            F.unpatch()
    except NotImplementedError as ex:
        return dict(ok=True, skipped=str(ex), desc=desc)
    except Exception as ex:
        return dict(ok=False, kind='exception', detail="%s: %s" % (type(ex).__name__, str(ex)[:200]),
                    tb=traceback.format_exc()[-600:], desc=desc)
    if snapshot(trains) != before:
        return dict(ok=False, kind='modified-input', detail='a spike train passed in was changed by the call', desc=desc)
    got = normalise_result(entry, r)
    if has_nan(got):
        return dict(ok=False, kind='nan', detail='result is not finite: %s' % show(got)[:300], desc=desc)
    exp = expected(entry, sel, kw)
    if not same(got, exp) and 'auto_pool_list' in PINNED and kwc == 'auto' and form.startswith('indices') and len(sel_idx) < len(pattern):
        # recorded finding D12: accept exactly the recorded behaviour (threshold pooled over the whole list) besides the correct one
        old = AUTO_POOL['mode']
        AUTO_POOL['mode'] = 'list'
        try:
            exp2 = expected(entry, sel, kw)
        finally:
            AUTO_POOL['mode'] = old
        if same(got, exp2):
            return dict(ok=True, desc=desc, got=show(got)[:200], known='auto_pool_list')
    if not same(got, exp):
        return dict(ok=False, kind='mismatch', detail='got %s  expected %s' % (show(got)[:400], show(exp)[:400]), desc=desc)
    return dict(ok=True, desc=desc, got=show(got)[:200])


def index_lists(n, max_len=None):
    out = []
    for size in range(2, (max_len or n) + 1):
        for sub in itertools.permutations(range(n), size):
            out.append(sub)
    return out


def patterns(n, which):
    if which == 'nonempty':
        return [tuple([False] * n)]
    return list(itertools.product([False, True], repeat=n))


def family(name, n, tier):
    """generator of scenario argument tuples for one check family"""
    entries = list(ENTRY)
    if name == 'forms':            # C14 (and C04 / C06 plumbing): every form, every ordered index subset, kw classes
        for entry in entries:
            for kwc in KW_CLASSES:
                if not kw_allowed(entry, kwc):
                    continue
                for compiled in (False, True):
                    for sel in index_lists(n):
                        for form in forms_for(entry, len(sel), kwc):
                            yield (entry, form, tuple([False] * n), sel, kwc, compiled)
    elif name == 'forms_wide':     # more trains (recursive pair halving with odd / larger pair lists), few selections
        full = tuple(range(n))
        sels = [full, tuple(reversed(full)), full[1:] + full[:1], full[:n - 1], (n - 1, 0, n // 2)]
        for entry in entries:
            for kwc in KW_CLASSES:
                if not kw_allowed(entry, kwc):
                    continue
                for compiled in (False, True):
                    for sel in sels:
                        for form in forms_for(entry, len(sel), kwc):
                            yield (entry, form, tuple([False] * n), sel, kwc, compiled)
    elif name == 'forms_many':     # many trains (pair counts with different remainders / powers of two), whole list + one rotation
        full = tuple(range(n))
        sels = [full, full[1:] + full[:1]]
        for entry in entries:
            for kwc in ('default', 'MRTS'):
                if not kw_allowed(entry, kwc):
                    continue
                for compiled in (False, True):
                    for sel in sels:
                        for form in forms_for(entry, len(sel), kwc):
                            if form in ('sublist', 'indices'):
                                yield (entry, form, tuple([False] * n), sel, kwc, compiled)
    elif name == 'degenerate':     # C18 (+ conventions of C05/C07): every emptiness pattern
        for entry in entries:
            for kwc in ('default', 'max_tau_MRTS', 'interval', 'unnormalized'):
                if not kw_allowed(entry, kwc):
                    continue
                for compiled in (False, True):
                    for pat in patterns(n, 'all'):
                        sels = [tuple(range(n))] + ([s for s in index_lists(n, 2)] if n > 2 else [])
                        for sel in sels:
                            for form in forms_for(entry, len(sel), kwc):
                                yield (entry, form, pat, sel, kwc, compiled)
    elif name == 'repeated':       # C06: lists in which a train occurs more than once (identical spike times), also next to empty ones
        pats = {2: [(False, 'same0')], 3: [(False, 'same0', False), (False, False, 'same1'), (False, 'same0', 'same0'), (True, False, 'same1'), (False, 'same0', True)],
                4: [(False, 'same0', False, 'same2'), (False, False, 'same0', True), (False, 'same0', 'same0', 'same0')]}[n]
        for entry in entries:
            for kwc in ('default', 'max_tau_MRTS', 'interval'):
                if not kw_allowed(entry, kwc):
                    continue
                for compiled in (False, True):
                    for pat in pats:
                        sels = [tuple(range(n))] + ([s_ for s_ in index_lists(n, 2)] if n > 2 else [])
                        for sel in sels:
                            for form in forms_for(entry, len(sel), kwc):
                                yield (entry, form, pat, sel, kwc, compiled)
    elif name == 'same_window':    # C04: the whole family uses the same window parameters for the same call
        for kwc in ('default', 'max_tau', 'max_tau_MRTS', 'MRTS', 'auto'):
            for compiled in (False, True):
                for sel in index_lists(n):
                    for form in ('sublist', 'indices', 'two_args', 'varargs'):
                        yield ('@same_window', form, tuple([False] * n), sel, kwc, compiled)
    elif name == 'inplace':        # history: call ; in-place change of a spike time ; call
        for entry in entries:
            for kwc in ('default', 'MRTS'):
                if not kw_allowed(entry, kwc):
                    continue
                for compiled in (False, True):
                    sel = tuple(range(n))
                    for form in forms_for(entry, n, kwc):
                        yield ('@inplace:' + entry, form, tuple([False] * n), sel, kwc, compiled)
    elif name == 'near':           # distinct trains whose spike times differ by a few 1e-9 (tolerance-based shortcuts must not fire)
        pats = {2: [(False, 'near0')], 3: [(False, 'near0', False), (False, 'near0', 'near0')]}[n]
        for entry in entries:
            for kwc in ('default', 'max_tau_MRTS', 'interval'):
                if not kw_allowed(entry, kwc):
                    continue
                for compiled in (False, True):
                    for pat in pats:
                        sels = [tuple(range(n))] + ([s_ for s_ in index_lists(n, 2)] if n > 2 else [])
                        for sel in sels:
                            for form in forms_for(entry, len(sel), kwc):
                                yield (entry, form, pat, sel, kwc, compiled)
    elif name == 'reconcile':      # C13: disordered / repeated spike times give the result of the normalised trains
        for entry in entries:
            for kwc in ('default', 'max_tau_MRTS', 'auto'):
                if not kw_allowed(entry, kwc):
                    continue
                for compiled in (False, True):
                    sel = tuple(range(n))
                    for form in forms_for(entry, n, kwc):
                        yield (entry, form, tuple([False] * n), sel, kwc, compiled, True)
                        yield (entry, form, tuple([False] * n), sel, kwc, compiled, False, True)
    elif name == 'auto':           # C15: MRTS='auto' = pooled threshold of the trains of the call, forwarded everywhere
        for entry in entries:
            for compiled in (False, True):
                for sel in index_lists(n):
                    for form in forms_for(entry, len(sel), 'auto'):
                        yield (entry, form, tuple([False] * n), sel, 'auto', compiled)
    else:
        raise ValueError(name)


AVG_PAIRS = [('isi_distance', 'isi_profile'), ('spike_distance', 'spike_profile'), ('spike_sync', 'spike_sync_profile'),
             ('spike_train_order', 'spike_train_order_profile')]


def run_avg(dist_entry, prof_entry, form, pattern, sel_idx, kwc, compiled):
    """C05: the scalar route equals averaging the profile returned by the profile route (same form, same keywords)"""
    kw = dict(KW_CLASSES[kwc])
    desc = dict(entry=dist_entry + '~' + prof_entry, form=form, empty=[bool(x) for x in pattern], indices=list(sel_idx),
                kwargs=kwc, compiled=bool(compiled), disorder=False, reconcile_off=False)
    out = []
    for which in (0, 1):
        trains, ids = make_trains(pattern)
        F.install(compiled)
        try:
            try:
                if which == 0:
                    r = call(dist_entry, form, trains, sel_idx, kw)
                else:
                    kwp = {k: v for k, v in kw.items() if k != 'interval'}
                    prof = call(prof_entry, form, trains, sel_idx, kwp)
                    r = prof.avrg(kw.get('interval')) if 'interval' in kw else prof.avrg()
            finally:
                F.unpatch()
        except Exception as ex:
            return dict(ok=False, kind='exception', detail="%s route: %s: %s" % (('distance', 'profile')[which], type(ex).__name__, str(ex)[:200]), desc=desc)
        out.append(r)
    if has_nan(out[0]) or has_nan(out[1]):
        return dict(ok=False, kind='nan', detail='not finite: distance %s / profile average %s' % (show(out[0])[:200], show(out[1])[:200]), desc=desc)
    if not same(out[0], out[1]):
        return dict(ok=False, kind='mismatch', detail='distance route %s  !=  average of profile route %s' % (show(out[0])[:300], show(out[1])[:300]), desc=desc)
    return dict(ok=True, desc=desc, got=show(out[0])[:200])


def family_avg(n, tier):
    for (de, pe) in AVG_PAIRS:
        for kwc in KW_CLASSES:
            if not kw_allowed(de, kwc) or kwc in ('unnormalized',):
                continue
            for compiled in (False, True):
                for pat in patterns(n, 'all'):
                    sels = [tuple(range(n))] + [s_ for s_ in index_lists(n, 2) if s_[0] < s_[1]]
                    for sel in sels:
                        for form in forms_for(de, len(sel), kwc):
                            if form == 'indices' and kwc == 'auto':
                                continue
                            yield (de, pe, form, pat, sel, kwc, compiled)


def run_family(name, n, tier, max_fail=25, pinned=()):
    PINNED.clear()
    PINNED.update(pinned)
    if name == 'auto':
        AUTO_POOL['mode'] = 'list'
    else:
        AUTO_POOL['mode'] = 'selected'
    tot = 0
    fails = []
    classes = {}
    samples = []
    skipped = 0
    for args in (family_avg(n, tier) if name == 'profile_avg' else family(name, n, tier)):
        r = run_avg(*args) if name == 'profile_avg' else run_one(*args)
        tot += 1
        d = r['desc']
        cls = "%s/%s/%s/%s" % (d['entry'], d['form'], d['kwargs'], 'compiled' if d['compiled'] else 'fallback')
        c = classes.setdefault(cls, [0, 0])
        c[0] += 1
        if r.get('skipped'):
            skipped += 1
            continue
        if not r['ok']:
            c[1] += 1
            if len(fails) < max_fail or not any(f['cls'] == cls for f in fails):
                fails.append(dict(cls=cls, kind=r['kind'], detail=r['detail'], desc=d, args=list(args)))
        elif len(samples) < 3 and tot % 97 == 1:
            samples.append(dict(desc=d, got=r.get('got')))
    return dict(family=name, n=n, scenarios=tot, skipped=skipped, classes={k: v for k, v in classes.items()},
                failures=fails, samples=samples)
