"""python3-vt side of the native plumbing harness: runs pv/native/main.py under /venv/bin/python"""
import json
import os
import subprocess

HERE = os.path.dirname(os.path.dirname(os.path.dirname(os.path.abspath(__file__))))
VENV_PY = os.environ.get('PYSPIKE_VENV_PY', '/venv/bin/python')


def run_native(req, timeout=3000):
    p = subprocess.run([VENV_PY, os.path.join(HERE, 'pv', 'native', 'main.py')], input=json.dumps(req),
                       stdout=subprocess.PIPE, stderr=subprocess.PIPE, text=True, timeout=timeout)
    if p.returncode != 0:
        raise RuntimeError("native harness failed: %s" % p.stderr[-3000:])
    return json.loads(p.stdout)


def replay_witness(w, verbose=False):
    """re-execute one stored scenario on the current tree; True when it still fails"""
    r = run_native(dict(op='replay', family=w.get('family'), args=w['args']))
    if verbose:
        print(json.dumps(r, default=str)[:2000])
    return not r.get('ok', False)
