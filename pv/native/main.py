"""entry point executed by /venv/bin/python: run scenario families / replay one scenario, print JSON"""
import json
import os
import sys
import warnings

HERE = os.path.dirname(os.path.dirname(os.path.dirname(os.path.abspath(__file__))))
REPO = os.environ.get('PYSPIKE_REPO', '/repo')
sys.path.insert(0, REPO)
sys.path.insert(1, HERE)
warnings.simplefilter('ignore')


def main():
    req = json.load(sys.stdin)
    sys.stdout = sys.stderr
    from pv.native import scenarios, extra
    if req['op'] == 'family':
        if req['family'] in extra.FAMILIES:
            out = extra.run_family(req['family'], req['n'], req.get('tier', 'quick'))
        else:
            out = scenarios.run_family(req['family'], req['n'], req.get('tier', 'quick'), pinned=req.get('pinned', ()))
    elif req['op'] == 'replay':
        if req.get('family') in extra.FAMILIES:
            out = extra.replay(req)
        else:
            a = req['args']
            a[2] = tuple(a[2]); a[3] = tuple(a[3])
            out = scenarios.run_one(*a)
    json.dump(out, sys.__stdout__, default=str)


if __name__ == '__main__':
    main()
