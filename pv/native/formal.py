"""Formal-term execution of the real plumbing code (DESIGN 4.4 'How the plumbing is executed').

Runs under /venv/bin/python.  The REAL wrappers of /repo (generic.py, isi_distance.py, spike_distance.py,
spike_sync.py, spike_directionality.py) are executed natively; what they call is replaced by what its contract
says, as a formal term:
  * every backend kernel returns an atom  K<measure, train_a, train_b, params>  (trains identified by content),
  * the three function classes are replaced by a free-module element over such atoms (add = +, mul_scalar = scaling,
    avrg/integral = linear maps to A<K, interval> / I<K, interval> / (C<K,iv>, M<K,iv>) atoms),
  * default_thresh returns a tagged sentinel T<set of trains>.
Results are linear combinations / ratios of atoms; they are compared STRUCTURALLY with normal forms written from
the property statements.  Branches on data (mp == 0, ...) are taken under a generic numeric valuation of the atoms
that respects emptiness (multiplicity atoms of an empty-empty pair are 0)."""
import hashlib
import sys
import types
from fractions import Fraction as Fr

import numpy as _real_np


class PlumbingError(Exception):
    pass


# ----------------------------------------------------------------------------------------------
class World(object):
    """per-scenario registry: train contents -> ids, edges, emptiness, log of kernel calls"""

    def __init__(self, t_start, t_end):
        self.t_start, self.t_end = t_start, t_end
        self.by_content = {}
        self.empty = {}
        self.nspikes = {}
        self.calls = []
        self.thresh = {}

    def register(self, tid, spikes):
        key = tuple(round(float(x), 9) for x in spikes)
        if len(key) == 0:
            tid = 'E'
            self.by_content[()] = 'E'
            self.by_content[(round(self.t_start, 9), round(self.t_end, 9))] = 'E'
        else:
            if key in self.by_content and self.by_content[key] != tid:
                tid = self.by_content[key]       # equal content = the same train
            self.by_content[key] = tid
        self.empty[tid] = len(key) == 0
        self.nspikes[tid] = len(key)
        return tid

    def ident(self, arr, what):
        key = tuple(round(float(x), 9) for x in _real_np.asarray(arr, dtype=float))
        if key not in self.by_content:
            raise PlumbingError("%s received a spike array that is not one of the (reconciled) input trains: %s" % (what, list(key)[:8]))
        return self.by_content[key]

    def edges(self, t_start, t_end, what):
        if abs(float(t_start) - self.t_start) > 1e-12 or abs(float(t_end) - self.t_end) > 1e-12:
            raise PlumbingError("%s called with edges (%s,%s) instead of (%s,%s)" % (what, t_start, t_end, self.t_start, self.t_end))


W = None  # current world


def gen_value(atom, lo=1, hi=997):
    h = int(hashlib.md5(repr(atom).encode()).hexdigest()[:10], 16)
    return Fr(lo + h % (hi - lo), 1000)


def atom_value(atom):
    tag = atom[0]
    if tag == 'M':
        K = atom[1]
        if W is not None and W.empty.get(K[2], False) and W.empty.get(K[3], False):
            return Fr(0)
        if atom[2] is None and W is not None:
            return Fr(W.nspikes.get(K[2], 1) + W.nspikes.get(K[3], 1))
        return gen_value(atom) + 1
    if tag in ('C', 'E'):
        m = atom_value(('M',) + atom[1:])
        if m == 0:
            return Fr(0)
        g = gen_value(atom) / 1000 * m
        return g if tag == 'C' else g - m / 2
    if tag == 'T':
        return gen_value(atom)
    return gen_value(atom)


def zero_atom(a):
    """coincidence count / multiplicity of a pair of two empty trains is 0 by the kernel contracts (C03)"""
    if a[0] in ('C', 'M', 'E') and W is not None:
        Kat = a[1]
        return bool(W.empty.get(Kat[2], False) and W.empty.get(Kat[3], False))
    return False


def canon_atom(a):
    """identity of the kernels (C07, decided by the kernel checks): for a pair consisting of the SAME train twice the
    ISI- and SPIKE-profile are 0, every spike is coincident (count = multiplicity), order / directionality are 0.
    Returns the canonical atom, or None for an atom that is 0.  Without this a wrapper that skips such pairs where the
    value is known would be reported although the property holds."""
    try:
        if a[0] == 'K':
            # (order / sync profiles share the pair atom between the value and the multiplicity profile: left alone)
            return None if (a[2] == a[3] and a[1] in ('isi', 'spike')) else a
        if a[0] in ('A', 'I', 'C', 'M') and isinstance(a[1], tuple) and a[1] and a[1][0] == 'K' and a[1][2] == a[1][3]:
            m = a[1][1]
            if m in ('isi', 'spike') or (m == 'order' and a[0] == 'C'):
                return None
            if m == 'sync' and a[0] == 'C':
                return ('M',) + tuple(a[1:])
        if a[0] == 'd' and a[1] == a[2]:
            return None
    except (IndexError, TypeError):
        pass
    return a


def frac(x):
    if isinstance(x, Fr):
        return x
    if isinstance(x, (int,)):
        return Fr(x)
    if isinstance(x, (float, _real_np.floating)):
        return Fr(float(x)).limit_denominator(10 ** 9)
    if isinstance(x, _real_np.integer):
        return Fr(int(x))
    raise TypeError("frac(%r)" % (x,))


class LC(object):
    """linear combination of atoms with rational coefficients + constant"""
    __slots__ = ('t', 'c')
    __array_priority__ = 1000

    def __init__(self, t=None, c=0):
        tt = {}
        for k, v in (t or {}).items():
            if v == 0 or zero_atom(k):
                continue
            k = canon_atom(k)
            if k is None:
                continue
            tt[k] = tt.get(k, 0) + v
        self.t = {k: v for k, v in tt.items() if v != 0}
        self.c = frac(c)

    @staticmethod
    def of(x):
        if isinstance(x, LC):
            return x
        return LC({}, frac(x))

    def value(self):
        return sum((v * atom_value(a) for a, v in self.t.items()), Fr(0)) + self.c

    def key(self):
        return (tuple(sorted(((repr(a), str(v)) for a, v in self.t.items()))), str(self.c))

    def same(self, o):
        return isinstance(o, LC) and self.key() == o.key() or (not isinstance(o, (LC, Ratio)) and not self.t and self.c == frac(o))

    def is_const(self):
        return not self.t

    def __add__(self, o):
        if isinstance(o, Ratio):
            return NotImplemented
        o = LC.of(o)
        t = dict(self.t)
        for a, v in o.t.items():
            t[a] = t.get(a, 0) + v
        return LC(t, self.c + o.c)
    __radd__ = __add__

    def __neg__(self):
        return LC({a: -v for a, v in self.t.items()}, -self.c)

    def __sub__(self, o):
        return self + (-LC.of(o))

    def __rsub__(self, o):
        return LC.of(o) + (-self)

    def __mul__(self, o):
        if isinstance(o, (LC, Ratio)):
            if isinstance(o, LC) and o.is_const():
                o = o.c
            elif self.is_const():
                return o * self.c
            else:
                raise PlumbingError("product of two formal terms")
        f = frac(o)
        return LC({a: v * f for a, v in self.t.items()}, self.c * f)
    __rmul__ = __mul__

    def __truediv__(self, o):
        if isinstance(o, LC):
            if o.is_const():
                o = o.c
            else:
                return Ratio(self, o)
        f = frac(o)
        if f == 0:
            return NaN('division of %s by zero' % (self,))
        return self * (1 / f)

    def __rtruediv__(self, o):
        return Ratio(LC.of(o), self)

    def _cmp(self, o, op):
        ov = o.value() if isinstance(o, (LC, Ratio)) else frac(o)
        sv = self.value()
        return {'<': sv < ov, '<=': sv <= ov, '>': sv > ov, '>=': sv >= ov, '==': sv == ov, '!=': sv != ov}[op]

    def __lt__(self, o): return self._cmp(o, '<')
    def __le__(self, o): return self._cmp(o, '<=')
    def __gt__(self, o): return self._cmp(o, '>')
    def __ge__(self, o): return self._cmp(o, '>=')
    def __eq__(self, o): return self._cmp(o, '==')
    def __ne__(self, o): return self._cmp(o, '!=')
    __hash__ = None

    def __bool__(self):
        return self.value() != 0

    def __float__(self):
        if self.is_const():
            return float(self.c)
        raise PlumbingError("formal term forced to float: %s" % (self,))

    def __repr__(self):
        parts = ["%s*%s" % (v, short(a)) for a, v in sorted(self.t.items(), key=lambda kv: repr(kv[0]))]
        if self.c != 0 or not parts:
            parts.append(str(self.c))
        return ' + '.join(parts)


class Ratio(object):
    """num / den of two linear combinations (pooled SPIKE-Sync / order values)"""
    __array_priority__ = 1000

    def __init__(self, num, den):
        self.num, self.den = LC.of(num), LC.of(den)
        if self.den.value() == 0:
            self.nan = True
        else:
            self.nan = False

    def value(self):
        return self.num.value() / self.den.value()

    def same(self, o):
        return isinstance(o, Ratio) and self.num.same(o.num) and self.den.same(o.den) and self.nan == o.nan

    def __mul__(self, o):
        return Ratio(self.num * o, self.den)
    __rmul__ = __mul__

    def __neg__(self):
        return Ratio(-self.num, self.den)

    def __truediv__(self, o):
        return Ratio(self.num, self.den * o)

    def key(self):
        return ('ratio', self.num.key(), self.den.key(), self.nan)

    def __float__(self):
        raise PlumbingError("formal ratio forced to float")

    def __repr__(self):
        return "(%s) / (%s)%s" % (self.num, self.den, ' [=nan: zero denominator]' if self.nan else '')


class NaN(object):
    def __init__(self, why):
        self.why = why
        self.nan = True

    def same(self, o):
        return False

    def key(self):
        return ('nan', self.why)

    def __repr__(self):
        return "nan(%s)" % self.why


def short(a):
    if isinstance(a, tuple):
        return "%s<%s>" % (a[0], ','.join(short(x) for x in a[1:]))
    return str(a)


def same(a, b):
    """structural equality of results (numbers, LC, Ratio, lists / arrays of them)"""
    if isinstance(a, (list, tuple, _real_np.ndarray)) or isinstance(b, (list, tuple, _real_np.ndarray)):
        try:
            la, lb = list(a), list(b)
        except TypeError:
            return False
        return len(la) == len(lb) and all(same(x, y) for x, y in zip(la, lb))
    if isinstance(a, (LC, Ratio, NaN)):
        return a.same(b)
    if isinstance(b, (LC, Ratio, NaN)):
        return b.same(a)
    try:
        return abs(float(a) - float(b)) < 1e-12
    except Exception:
        return a == b


def has_nan(x):
    if isinstance(x, (list, tuple, _real_np.ndarray)):
        return any(has_nan(y) for y in list(x))
    if isinstance(x, (Ratio, NaN)):
        return x.nan
    if isinstance(x, LC):
        return False
    if isinstance(x, FProfile):
        return False
    try:
        return float(x) != float(x) or abs(float(x)) == float('inf')
    except Exception:
        return False


# ----------------------------------------------------------------------------------------------
# atoms

SYMMETRIC = ('isi', 'spike', 'sync')


def K(measure, a, b, params):
    """-> (sign, atom). ISI / SPIKE / Sync kernels are symmetric in the trains (C07 lemma), order is antisymmetric"""
    if measure in SYMMETRIC:
        if repr(b) < repr(a):
            a, b = b, a
        return 1, ('K', measure, a, b, params)
    if measure == 'order':
        if repr(b) < repr(a):
            return -1, ('K', measure, b, a, params)
        return 1, ('K', measure, a, b, params)
    raise ValueError(measure)


def ivkey(interval):
    if interval is None:
        return None
    try:
        if isinstance(interval[0], (list, tuple)):
            return tuple((round(float(i[0]), 9), round(float(i[1]), 9)) for i in interval)
    except TypeError:
        pass
    return (round(float(interval[0]), 9), round(float(interval[1]), 9))


def pnum(x):
    """kernel parameter as it reaches the kernel"""
    if isinstance(x, LC):
        if x.is_const():
            return float(x.c)
        return ('LC', x.key())
    if isinstance(x, (bool, _real_np.bool_)):
        return bool(x)
    if isinstance(x, Sentinel):
        return ('T', x.tag)
    if x is None:
        return None
    return round(float(x), 9)


class Sentinel(float):
    """value returned by the stubbed default_thresh: a float carrying the set of trains it was computed from"""

    def __new__(cls, tag):
        o = float.__new__(cls, 0.123456789)
        o.tag = tag
        return o


class Carrier(object):
    def __init__(self, sign, atom, kind):
        self.sign, self.atom, self.kind = sign, atom, kind


class FProfile(object):
    """formal replacement of PieceWiseConstFunc / PieceWiseLinFunc / DiscreteFunc"""
    kind = None

    def __init__(self, *args):
        c = args[0]
        if isinstance(c, Carrier):
            self.lc = LC({c.atom: Fr(c.sign)})       # values (signed for the antisymmetric order kernel)
            self.mp = LC({c.atom: Fr(1)})            # multiplicities (discrete profiles only)
        else:
            raise PlumbingError("profile object constructed from something that is not a kernel result: %r" % (type(c),))

    def add(self, f):
        if not isinstance(f, FProfile) or f.kind != self.kind:
            raise PlumbingError("add of incompatible profile")
        self.lc = self.lc + f.lc
        self.mp = self.mp + f.mp

    def mul_scalar(self, fac):
        self.lc = self.lc * frac(fac)

    def copy(self):
        o = type(self).__new__(type(self))
        o.lc = LC(dict(self.lc.t), self.lc.c)
        o.mp = LC(dict(self.mp.t), self.mp.c)
        return o

    def integral(self, interval=None):
        iv = ivkey(interval)
        if self.kind == 'disc':
            return (LC({('C', a, iv): v for a, v in self.lc.t.items()}),
                    LC({('M', a, iv): v for a, v in self.mp.t.items()}))
        return LC({('I', a, iv): v for a, v in self.lc.t.items()})

    def avrg(self, interval=None, normalize=True):
        iv = ivkey(interval)
        if self.kind == 'disc':
            val, mp = self.integral(interval)
            if normalize:
                if mp > 0:
                    return val / mp
                return 1.0
            return val
        return LC({('A', a, iv): v for a, v in self.lc.t.items()})

    def same(self, o):
        return isinstance(o, FProfile) and o.kind == self.kind and self.lc.same(o.lc)

    def key(self):
        return (self.kind, self.lc.key())

    def __repr__(self):
        return "%s-profile[%s]" % (self.kind, self.lc)


class FPwc(FProfile):
    kind = 'pwc'


class FPwl(FProfile):
    kind = 'pwl'


class FDisc(FProfile):
    kind = 'disc'


# ----------------------------------------------------------------------------------------------
# kernel stubs (what the kernel contracts say, as formal terms)

def k_isi_profile(s1, s2, t_start, t_end, MRTS=0.):
    W.edges(t_start, t_end, 'isi kernel')
    sg, a = K('isi', W.ident(s1, 'isi kernel'), W.ident(s2, 'isi kernel'), (pnum(MRTS),))
    W.calls.append(a)
    return Carrier(sg, a, 'pwc'), Carrier(sg, a, 'pwc')


def k_spike_profile(s1, s2, t_start, t_end, MRTS=0., RI=False):
    W.edges(t_start, t_end, 'spike kernel')
    sg, a = K('spike', W.ident(s1, 'spike kernel'), W.ident(s2, 'spike kernel'), (pnum(MRTS), bool(RI)))
    W.calls.append(a)
    return Carrier(sg, a, 'pwl'), Carrier(sg, a, 'pwl'), Carrier(sg, a, 'pwl')


def k_sync_profile(s1, s2, t_start, t_end, max_tau, MRTS=0.):
    W.edges(t_start, t_end, 'sync kernel')
    sg, a = K('sync', W.ident(s1, 'sync kernel'), W.ident(s2, 'sync kernel'), (pnum(max_tau), pnum(MRTS)))
    W.calls.append(a)
    return Carrier(sg, a, 'disc'), Carrier(sg, a, 'disc'), Carrier(sg, a, 'disc')


def k_order_profile(s1, s2, t_start, t_end, max_tau, MRTS=0.):
    W.edges(t_start, t_end, 'order kernel')
    sg, a = K('order', W.ident(s1, 'order kernel'), W.ident(s2, 'order kernel'), (pnum(max_tau), pnum(MRTS)))
    W.calls.append(a)
    return Carrier(sg, a, 'disc'), Carrier(sg, a, 'disc'), Carrier(sg, a, 'disc')


def k_directionality_profiles(s1, s2, t_start, t_end, max_tau, MRTS=0.):
    W.edges(t_start, t_end, 'directionality kernel')
    a, b = W.ident(s1, 'directionality kernel'), W.ident(s2, 'directionality kernel')
    p = (pnum(max_tau), pnum(MRTS))
    W.calls.append(('d', a, b, p))
    d1 = _real_np.empty(len(s1), dtype=object)
    d2 = _real_np.empty(len(s2), dtype=object)
    for k in range(len(s1)):
        d1[k] = LC({('d', a, b, p, k): Fr(1)})
    for k in range(len(s2)):
        d2[k] = LC({('d', b, a, p, k): Fr(1)})
    return d1, d2


# compiled single-pass routines: by their contracts they return the profile aggregates
def k_isi_distance(s1, s2, t_start, t_end, MRTS=0.):
    c, _ = k_isi_profile(s1, s2, t_start, t_end, MRTS)
    return LC({('A', c.atom, None): Fr(1)})


def k_spike_distance(s1, s2, t_start, t_end, MRTS=0., RI=False):
    c, _, _ = k_spike_profile(s1, s2, t_start, t_end, MRTS, RI)
    return LC({('A', c.atom, None): Fr(1)})


def k_sync_value(s1, s2, t_start, t_end, max_tau, MRTS=0.):
    c, _, _ = k_sync_profile(s1, s2, t_start, t_end, max_tau, MRTS)
    return LC({('C', c.atom, None): Fr(1)}), LC({('M', c.atom, None): Fr(1)})


def k_order_value(s1, s2, t_start, t_end, max_tau, MRTS=0.):
    c, _, _ = k_order_profile(s1, s2, t_start, t_end, max_tau, MRTS)
    cv, mv = LC({('C', c.atom, None): Fr(c.sign)}), LC({('M', c.atom, None): Fr(1)})
    return cv, mv


def k_directionality_value(s1, s2, t_start, t_end, max_tau, MRTS=0.):
    d1, d2 = k_directionality_profiles(s1, s2, t_start, t_end, max_tau, MRTS)
    tot = LC()
    for x in d1:
        tot = tot + x
    return tot


class NumpyProxy(object):
    """numpy as seen by the wrappers: allocations that later receive formal terms are object arrays"""

    def __getattr__(self, name):
        return getattr(_real_np, name)

    @staticmethod
    def zeros(shape, *a, **k):
        arr = _real_np.empty(shape, dtype=object)
        arr.fill(Fr(0))
        return arr

    @staticmethod
    def zeros_like(x, *a, **k):
        n = len(x)
        arr = _real_np.empty(n, dtype=object)
        arr.fill(Fr(0))
        return arr

    @staticmethod
    def sum(x, *a, **k):
        tot = LC()
        for v in list(x):
            tot = tot + v
        return tot


_PATCHED = []


def _patch(obj, name, val):
    _PATCHED.append((obj, name, getattr(obj, name, None), hasattr(obj, name)))
    setattr(obj, name, val)


def unpatch():
    while _PATCHED:
        obj, name, old, had = _PATCHED.pop()
        if had:
            setattr(obj, name, old)
        else:
            try:
                delattr(obj, name)
            except AttributeError:
                pass
    for m in list(sys.modules):
        if m.startswith('pyspike.cython.cython_') and getattr(sys.modules[m], '__formal_stub__', False):
            del sys.modules[m]


def install(compiled, thresh_stub=True):
    """patch the repository modules for one scenario. compiled=True: stub modules for the C extensions are
    importable (the 'compiled kernels' configuration), False: imports of them raise ImportError (fallback)."""
    import pyspike
    import pyspike.cython
    from pyspike.cython import python_backend as pb, directionality_python_backend as dpb
    # NB: `import pyspike.isi_distance as m` would bind the FUNCTION of that name exported by the package
    g = sys.modules['pyspike.generic']
    mi = sys.modules['pyspike.isi_distance']
    ms = sys.modules['pyspike.spike_distance']
    my = sys.modules['pyspike.spike_sync']
    md = sys.modules['pyspike.spike_directionality']
    _patch(pb, 'isi_distance_python', k_isi_profile)
    _patch(pb, 'spike_distance_python', k_spike_profile)
    _patch(pb, 'coincidence_python', k_sync_profile)
    _patch(dpb, 'spike_train_order_profile_python', k_order_profile)
    _patch(dpb, 'spike_directionality_profile_python', k_directionality_profiles)
    _patch(mi, 'PieceWiseConstFunc', FPwc)
    _patch(ms, 'PieceWiseLinFunc', FPwl)
    _patch(my, 'DiscreteFunc', FDisc)
    _patch(md, 'DiscreteFunc', FDisc)
    proxy = NumpyProxy()
    for m in (g, my, md):
        _patch(m, 'np', proxy)
    _patch(pyspike, 'NoCythonWarn', lambda: None)
    names = ['cython_profiles', 'cython_distances', 'cython_directionality', 'cython_add', 'cython_get_tau']
    for n in names:
        full = 'pyspike.cython.' + n
        if full in sys.modules:
            del sys.modules[full]
        if hasattr(pyspike.cython, n):
            _patch(pyspike.cython, n, None)
            delattr(pyspike.cython, n)
    if compiled:
        prof = types.ModuleType('pyspike.cython.cython_profiles')
        prof.isi_profile_cython = k_isi_profile
        prof.spike_profile_cython = k_spike_profile
        prof.coincidence_profile_cython = k_sync_profile
        dist = types.ModuleType('pyspike.cython.cython_distances')
        dist.isi_distance_cython = k_isi_distance
        dist.spike_distance_cython = k_spike_distance
        dist.coincidence_value_cython = k_sync_value
        dire = types.ModuleType('pyspike.cython.cython_directionality')
        dire.spike_train_order_profile_cython = k_order_profile
        dire.spike_train_order_cython = k_order_value
        dire.spike_directionality_profiles_cython = k_directionality_profiles
        dire.spike_directionality_cython = k_directionality_value
        for n, m in (('cython_profiles', prof), ('cython_distances', dist), ('cython_directionality', dire)):
            m.__formal_stub__ = True
            sys.modules['pyspike.cython.' + n] = m
            setattr(pyspike.cython, n, m)
            _PATCHED.append((pyspike.cython, n, None, False))
    else:
        class _Block(object):
            def find_spec(self, name, path=None, target=None):
                if name.startswith('pyspike.cython.cython_'):
                    raise ImportError("blocked: fallback configuration")
                return None
        blk = _Block()
        sys.meta_path.insert(0, blk)
        _PATCHED.append((_MetaRemover(blk), 'x', None, False))
    if thresh_stub:
        def default_thresh_stub(trains):
            tag = tuple(sorted(set(W.ident(t.spikes, 'default_thresh') for t in trains)))
            s = Sentinel(tag)
            W.thresh[tag] = s
            return s
        for m in (g, mi, ms, my, md):
            _patch(m, 'default_thresh', default_thresh_stub)


class _MetaRemover(object):
    def __init__(self, blk):
        object.__setattr__(self, 'blk', blk)

    def __delattr__(self, name):
        try:
            sys.meta_path.remove(object.__getattribute__(self, 'blk'))
        except ValueError:
            pass
