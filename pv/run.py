"""Run obligation groups: generate (parallel) -> discharge (parallel) -> collect per group."""
import time
from . import solve
from .groups.base import GROUPS, gen_worker


def run_groups(names, tier, known_by_group=None, log=None, cache=True):
    known_by_group = known_by_group or {}
    t0 = time.time()
    work = []
    for n in names:
        g = GROUPS[n]
        for t in g.tasks(tier):
            work.append((n, t, tuple(known_by_group.get(n, ()))))
    pool = solve.pool()
    gens = list(pool.imap_unordered(gen_worker, work, chunksize=1))
    t_gen = time.time() - t0
    jobs = []
    out = {n: dict(group=n, tasks=[], jobs=0, obligations=0, discharged=0, failed=[], errors=[], undecided=False,
                   crash=False, solver_time=0.0, backends={}, cached=0, samples=[], presolved=0) for n in names}
    for gr in gens:
        o = out[gr['group']]
        o['tasks'].append(dict(task=gr['task'], stats={k: v for k, v in gr['stats'].items() if not k.startswith('_')}))
        if gr.get('error'):
            o['errors'].append(dict(task=gr['task'], error=gr['error']))
            if gr.get('crash'):
                o['crash'] = True
            else:
                o['undecided'] = True
            continue
        for j in gr['jobs']:
            j['cache'] = cache and j.get('cache', True)
            jobs.append(j)
    # longest first is unknown; keep generation order but interleave groups
    pending = [j for j in jobs if 'presolved' not in j]
    by_name = {j['name']: j for j in jobs}
    t1 = time.time()
    results = solve.discharge(pending, chunksize=1)
    for j in jobs:
        if 'presolved' in j:
            r = dict(j['presolved'])
            r['name'] = j['name']
            results.append(r)
    t_solve = time.time() - t1
    for r in results:
        j = by_name[r['name']]
        o = out[j['group']]
        subs = j.get('subgoals') or [j['name']]
        if j.get('kind') == 'canary':
            cls = subs[0].split('#')[0]
            o.setdefault('canaries', {}).setdefault(cls, [0, 0])
            o['canaries'][cls][0] += 1
            if r['result'] != 'unsat':
                o['canaries'][cls][1] += 1          # reachable: False is not provable here
            continue
        o['jobs'] += 1
        o['obligations'] += len(subs)
        o['solver_time'] += r.get('time', 0.0)
        o['backends'][r.get('backend', '?')] = o['backends'].get(r.get('backend', '?'), 0) + 1
        if r.get('cached'):
            o['cached'] += 1
        if r['result'] == 'unsat':
            o['discharged'] += len(subs)
            if len(o['samples']) < 2:
                o['samples'].append(dict(job=j['name'], obligations=subs[:6], result='valid', backend=r.get('backend'),
                                         smt2_head=(j.get('smt') or '')[:600]))
        else:
            failed_subs = subs
            if r['result'] == 'sat' and r.get('model') and j.get('flagnames'):
                fs = [s for s, fl in zip(subs, j['flagnames']) if r['model'].get(fl) == 'False']
                if fs:
                    failed_subs = fs
                    o['discharged'] += len(subs) - len(fs)
            o['failed'].append(dict(job=j['name'], task=j.get('task'), result=r['result'], reason=r.get('reason'),
                                    backend=r.get('backend'), model=r.get('model'), subgoals=failed_subs,
                                    time=r.get('time'), smt=j.get('smt') or r.get('smt'), witness=r.get('witness')))
    for o in out.values():
        o['solver_time'] = round(o['solver_time'], 2)
    return out, dict(gen_wall=round(t_gen, 2), solve_wall=round(t_solve, 2), jobs=len(jobs))
