"""Loading the functions under contract from /repo's current working tree (every run)."""
import ast
import hashlib
import os
from . import extract as _ex

REPO = os.environ.get('PYSPIKE_REPO', '/repo')


class Module(object):
    def __init__(self, rel):
        self.rel = rel
        path = os.path.join(REPO, rel)
        if rel.startswith('verif:'):
            path = os.path.join(os.path.dirname(os.path.dirname(os.path.abspath(__file__))), rel[6:])
        self.raw = open(path).read()
        self.extraction_log = None
        if rel.endswith('.pyx'):
            self.text, self.extraction_log = _ex.extract(self.raw)
        else:
            self.text = self.raw
        self.tree = ast.parse(self.text)
        self.funcs = {}
        for n in ast.walk(self.tree):
            if isinstance(n, ast.FunctionDef):
                self.funcs.setdefault(n.name, n)
        self.classes = {n.name: n for n in self.tree.body if isinstance(n, ast.ClassDef)}

    def func(self, name, cls=None):
        if cls is not None:
            for n in self.classes[cls].body:
                if isinstance(n, ast.FunctionDef) and n.name == name:
                    return n
            raise KeyError("%s.%s not found in %s" % (cls, name, self.rel))
        if name not in self.funcs:
            raise KeyError("%s not found in %s" % (name, self.rel))
        return self.funcs[name]

    def sha(self, name, cls=None):
        f = self.func(name, cls)
        seg = ast.get_source_segment(self.text, f) or ast.unparse(f)
        return hashlib.sha256(seg.encode()).hexdigest()[:16]


_cache = {}


def module(rel):
    if rel not in _cache:
        _cache[rel] = Module(rel)
    return _cache[rel]
