"""Discharging obligations: SMT-LIB2 text per obligation, z3 (Python API) first, /usr/bin/z3 4.8 and cvc5
as fall-backs for `unknown`.  Results: 'unsat' (= obligation valid), 'sat' (refuted, model attached),
'unknown'.  A run-local cache keyed by the SHA-256 of the query text is an accelerator only."""
import hashlib
import json
import multiprocessing as mp
import os
import subprocess
import tempfile
import time
import z3

CACHE_DIR = os.path.join(os.path.dirname(os.path.dirname(os.path.abspath(__file__))), '.cache')


def to_smt2(hyp, goal, negate=True):
    s = z3.Solver()
    for h in hyp:
        s.add(h)
    if goal is not None:
        s.add(z3.Not(goal) if negate else goal)
    return s.to_smt2()


def _model_dict(m):
    out = {}
    for d in m.decls():
        if d.arity() == 0:
            v = m[d]
            try:
                if z3.is_algebraic_value(v):
                    v = v.approx(20)
                out[d.name()] = str(v)
            except Exception:
                out[d.name()] = str(v)
    return out


def solve_z3py(smt, timeout_ms, rlimit, want_model):
    s = z3.Solver()
    s.set('timeout', int(timeout_ms))
    if rlimit:
        s.set('rlimit', int(rlimit))
    s.from_string(smt)
    t = time.time()
    r = str(s.check())
    dt = time.time() - t
    model = None
    reason = None
    if r == 'sat' and want_model:
        try:
            model = _model_dict(s.model())
        except Exception as ex:  # pragma: no cover
            reason = "model unavailable: %s" % ex
    if r == 'unknown':
        reason = s.reason_unknown()
    return r, dt, model, reason


def _run_cli(cmd, smt, timeout_s, prefix=''):
    with tempfile.NamedTemporaryFile('w', suffix='.smt2', delete=False, dir='/dev/shm' if os.path.isdir('/dev/shm') else None) as f:
        f.write(prefix + smt)
        path = f.name
    try:
        t = time.time()
        p = subprocess.run(cmd + [path], stdout=subprocess.PIPE, stderr=subprocess.PIPE, timeout=timeout_s + 5, text=True)
        out = p.stdout.strip().split('\n')[0] if p.stdout.strip() else 'unknown'
        return (out if out in ('sat', 'unsat', 'unknown') else 'unknown'), time.time() - t
    except subprocess.TimeoutExpired:
        return 'unknown', timeout_s
    finally:
        os.unlink(path)


def solve_job(job):
    """job: dict(name, smt, timeout_ms, rlimit, want_model, portfolio, cache)"""
    smt = job['smt']
    key = None
    if job.get('cache', True):
        key = hashlib.sha256((smt + "|%s|%s" % (job.get('timeout_ms'), job.get('portfolio'))).encode()).hexdigest()
        p = os.path.join(CACHE_DIR, key[:2], key + '.json')
        if os.path.exists(p):
            try:
                r = json.load(open(p))
                r['name'] = job['name']
                r['cached'] = True
                return r
            except Exception:
                pass
    r, dt, model, reason = solve_z3py(smt, job.get('timeout_ms', 30000), job.get('rlimit'), job.get('want_model', True))
    backend = 'z3-5.1(py)'
    total = dt
    if r == 'unknown' and job.get('portfolio', True):
        to = max(5, int(job.get('portfolio_timeout_ms', min(15000, job.get('timeout_ms', 30000))) / 1000))
        r2, dt2 = _run_cli(['/usr/bin/z3', '-T:%d' % to], smt, to)
        total += dt2
        if r2 in ('sat', 'unsat'):
            r, backend = r2, 'z3-4.8.12(cli)'
        else:
            r3, dt3 = _run_cli(['/usr/bin/cvc5', '--tlimit=%d' % (to * 1000), '-q'], smt, to, prefix='(set-logic ALL)\n')
            total += dt3
            if r3 in ('sat', 'unsat'):
                r, backend = r3, 'cvc5-1.0.3(cli)'
    res = dict(name=job['name'], result=r, time=total, model=model, reason=reason, backend=backend, cached=False)
    if key is not None and r in ('sat', 'unsat'):
        d = os.path.join(CACHE_DIR, key[:2])
        try:
            os.makedirs(d, exist_ok=True)
            tmp = os.path.join(d, key + '.tmp%d' % os.getpid())
            json.dump(res, open(tmp, 'w'))
            os.replace(tmp, os.path.join(d, key + '.json'))
        except Exception:
            pass
    return res


_POOL = None


def pool(n=None):
    global _POOL
    if _POOL is None:
        n = n or min(16, os.cpu_count() or 4)
        _POOL = mp.get_context('fork').Pool(n)
    return _POOL


def close_pool():
    global _POOL
    if _POOL is not None:
        _POOL.close()
        _POOL.join()
        _POOL = None


def discharge(jobs, chunksize=1):
    if not jobs:
        return []
    return list(pool().imap_unordered(solve_job, jobs, chunksize=chunksize))
