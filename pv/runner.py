"""Executed by /venv/bin/python (numpy + the repository, no solver): run one real function of the
repository's current working tree on a concrete input and print the outcome as JSON.
For .pyx functions the mechanically extracted text (pv.extract) is executed: 'compiled-kernel stand-in'."""
import importlib.util
import json
import os
import sys
import types
import warnings

HERE = os.path.dirname(os.path.dirname(os.path.abspath(__file__)))
REPO = os.environ.get('PYSPIKE_REPO', '/repo')
sys.path.insert(0, REPO)
sys.path.insert(1, HERE)
warnings.simplefilter('ignore')
import numpy as np  # noqa: E402

PYX_ORDER = ['cython_get_tau', 'cython_add', 'cython_profiles', 'cython_distances', 'cython_directionality']


def inject_extracted(names=PYX_ORDER):
    """make the extracted .pyx texts importable as pyspike.cython.<name> (compiled-kernel stand-in)"""
    from pv import extract
    import pyspike.cython
    mods = {}
    for name in names:
        path = os.path.join(REPO, 'pyspike', 'cython', name + '.pyx')
        text, _log = extract.extract(open(path).read())
        m = types.ModuleType('pyspike.cython.' + name)
        m.__file__ = path + ' (extracted)'
        sys.modules['pyspike.cython.' + name] = m
        exec(compile(text, path + '.extracted.py', 'exec'), m.__dict__)
        setattr(pyspike.cython, name, m)
        mods[name] = m
    return mods


def enc(v):
    if isinstance(v, np.ndarray):
        return {'__array__': [enc(x) for x in v.tolist()]}
    if isinstance(v, (tuple, list)):
        return {'__tuple__' if isinstance(v, tuple) else '__list__': [enc(x) for x in v]}
    if isinstance(v, (np.floating, float)):
        v = float(v)
        if v != v:
            return {'__float__': 'nan'}
        if v in (float('inf'), float('-inf')):
            return {'__float__': 'inf' if v > 0 else '-inf'}
        return v
    if isinstance(v, (np.integer,)):
        return int(v)
    if isinstance(v, (np.bool_,)):
        return bool(v)
    if hasattr(v, 'tolist') and hasattr(v, 'shape'):       # memoryview-like
        return enc(np.asarray(v))
    if v is None or isinstance(v, (int, bool, str)):
        return v
    if hasattr(v, '__dict__'):
        return {'__obj__': type(v).__name__, 'fields': {k: enc(x) for k, x in v.__dict__.items()}}
    return repr(v)


def dec(v):
    if isinstance(v, dict):
        if '__array__' in v:
            return np.array([dec(x) for x in v['__array__']], dtype=float)
        if '__tuple__' in v:
            return tuple(dec(x) for x in v['__tuple__'])
        if '__list__' in v:
            return [dec(x) for x in v['__list__']]
        if '__float__' in v:
            return float(v['__float__'])
        if '__obj__' in v:
            return make_obj(v)
    return v


def make_obj(v):
    import pyspike
    cls = v['__obj__']
    f = {k: dec(x) for k, x in v['fields'].items()}
    if cls == 'SpikeTrain':
        return pyspike.SpikeTrain(f['spikes'], [f['t_start'], f['t_end']])
    if cls == 'PieceWiseConstFunc':
        return pyspike.PieceWiseConstFunc(f['x'], f['y'])
    if cls == 'PieceWiseLinFunc':
        return pyspike.PieceWiseLinFunc(f['x'], f['y1'], f['y2'])
    if cls == 'DiscreteFunc':
        return pyspike.DiscreteFunc(f['x'], f['y'], f['mp'])
    raise ValueError(cls)


def resolve(rel, func, cls):
    if rel.startswith('verif:'):
        # harness-side driver program over the repository's real classes
        import pyspike
        ns = dict(PieceWiseConstFunc=pyspike.PieceWiseConstFunc, PieceWiseLinFunc=pyspike.PieceWiseLinFunc,
                  DiscreteFunc=pyspike.DiscreteFunc, SpikeTrain=pyspike.SpikeTrain, np=np)
        exec(compile(open(os.path.join(HERE, rel[6:])).read(), rel, 'exec'), ns)
        return ns[func]
    if rel.endswith('.pyx'):
        mods = inject_extracted()
        m = mods[os.path.basename(rel)[:-4]]
    else:
        modname = rel[:-3].replace('/', '.')
        m = importlib.import_module(modname)
    if cls:
        return getattr(getattr(m, cls), func)
    return getattr(m, func)


def main():
    req = json.load(sys.stdin)
    out = []
    sys.stdout = sys.stderr          # the repository prints (NoCythonWarn, debug prints in integral): keep stdout clean for the JSON
    for call in req['calls']:
        try:
            if call.get('compiled_standin'):
                inject_extracted()
            else:
                for k_ in [m for m in sys.modules if m.startswith('pyspike.cython.cython_')]:
                    del sys.modules[k_]
            f = resolve(call['rel'], call['func'], call.get('cls'))
            args = [dec(a) for a in call['args']]
            before = json.dumps([enc(a) for a in args], sort_keys=True)
            kwargs = {k: dec(a) for k, a in call.get('kwargs', {}).items()}
            if call.get('draws') is not None:
                # fixed outcomes of the random generator: the k-th call of np.random.exponential returns the k-th array
                queue = [list(d) for d in call['draws']]
                state = {'k': 0}

                def fixed_exponential(scale=1.0, size=None):
                    k = state['k']
                    state['k'] += 1
                    if k > len(queue) + 8:
                        raise RuntimeError("replay: more calls of np.random.exponential than the recorded execution made")
                    rec = queue[k] if k < len(queue) else []
                    n = int(size) if size is not None else 1
                    return np.array([rec[i] if i < len(rec) else 0.0 for i in range(n)], dtype=float)
                np.random.exponential = fixed_exponential
            r = f(*args, **kwargs)
            after = json.dumps([enc(a) for a in args], sort_keys=True)
            res = {'ok': True, 'result': enc(r), 'args_unchanged': before == after}
            if call.get('return_args'):
                res['args_after'] = [enc(a) for a in args]
            out.append(res)
        except BaseException as ex:  # noqa
            out.append({'ok': False, 'exc': type(ex).__name__, 'msg': str(ex)[:300]})
    json.dump(out, sys.__stdout__)


if __name__ == '__main__':
    main()
