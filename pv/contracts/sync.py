"""C03 / C04 / C16 contracts: coincidence window (get_tau), SPIKE-Sync profile, per-spike indicator,
spike-train-order profile, directionality values, and the compiled single-pass routines."""
import z3
from ..sym import *  # noqa
from ..engine import LoopSpec
from ..harness import Contract, Ctx, in_array, in_real, in_int
from .. import spec


# ---------------------------------------------------------------------------------------------
# spec functions (C03 statement)

def Interp(a, b, t):
    """thresholded interpolation of the documented adaptive window: max(min(a,b), min(t,b))"""
    return rmax(rmin(a, b), rmin(t, b))


def limit_of(max_tau, t0, t1):
    """substitute length of a missing neighbouring ISI: recording length, or 2*max_tau if that is smaller"""
    T = arith('-', t1, t0)
    if isinstance(max_tau, (int, Fraction)):
        return rmin(T, arith('*', 2, max_tau)) if max_tau > 0 else T
    return ite(cmp('>', max_tau, 0), rmin(T, arith('*', 2, max_tau)), T)


def half_isis(S1, S2, i, j, lim):
    """(mP1, mF1, mP2, mF2): halves of the ISIs before / after spike i of train 1 and spike j of train 2;
    a missing neighbour counts as `lim`. Indices concrete or symbolic."""
    N1, N2 = S1.n, S2.n
    half = Fraction(1, 2)

    def pick(cond, val):
        if isinstance(cond, bool):
            return arith('*', half, val() if cond else lim)
        return arith('*', half, ite(cond, val(), lim))
    mF1 = pick(band(cmp('<', i, arith('-', N1, 1)), cmp('>', i, -1)), lambda: S1[i + 1] - S1[i])
    mF2 = pick(band(cmp('<', j, arith('-', N2, 1)), cmp('>', j, -1)), lambda: S2[j + 1] - S2[j])
    mP1 = pick(cmp('>', i, 0), lambda: S1[i] - S1[i - 1])
    mP2 = pick(cmp('>', j, 0), lambda: S2[j] - S2[j - 1])
    return mP1, mF1, mP2, mF2


def tau_spec(S1, S2, i, j, lim, M):
    """coincidence window of the pair (i, j); i or j may be -1 (no spike yet)"""
    mP1, mF1, mP2, mF2 = half_isis(S1, S2, i, j, lim)
    t = arith('*', Fraction(1, 4), M)
    cap = arith('*', Fraction(1, 2), lim)                           # C16: never more than max_tau (= lim/2 when max_tau > 0)
    first = rmin(rmin(Interp(mP1, mF1, t), Interp(mF2, mP2, t)), cap)       # spike i is the earlier one (or tie)
    second = rmin(rmin(Interp(mF1, mP1, t), Interp(mP2, mF2, t)), cap)
    neg = bor(cmp('<', i, 0), cmp('<', j, 0))
    if neg is True:
        return first
    c = bor(neg, cmp('<=', spec.sel_guard(S1, i), spec.sel_guard(S2, j)))
    return ite(c, first, second)


def coincident(S1, S2, i, j, lim, M):
    from ..sym import MEMO
    key = None
    if isinstance(i, int) and isinstance(j, int):
        key = ('coinc', id(S1), id(S2), i, j, lim.get_id() if is_z3(lim) else lim, M.get_id() if is_z3(M) else M)
        if key in MEMO:
            return MEMO[key][0]
    r = cmp('<', rabs(arith('-', S1[i], S2[j])), tau_spec(S1, S2, i, j, lim, M))
    if key is not None:
        MEMO[key] = (r, S1, S2, lim, M)          # operands kept alive so that id() keys stay unique
    return r


def trains_setup(st, mode, size, values, names, nonempty=False):
    N1, N2 = size[0], size[1]
    a, b = names
    t0, t1, M, mt = in_real('t_start', values), in_real('t_end', values), in_real('MRTS', values), in_real('max_tau', values)
    s1 = in_array(st, a, N1, mode, values)
    s2 = in_array(st, b, N2, mode, values)
    st.vars.update({a: s1, b: s2, 't_start': t0, 't_end': t1, 'MRTS': M, 'max_tau': mt})
    S1, S2 = st.acc(s1), st.acc(s2)
    pre = [cmp('<', t0, t1), cmp('>=', M, 0), cmp('>=', mt, 0),
           spec.valid_train(S1, t0, t1, nonempty=nonempty), spec.valid_train(S2, t0, t1, nonempty=nonempty)]
    ctx = Ctx(mode=mode, N1=s1.n, N2=s2.n, t0=t0, t1=t1, M=M, mt=mt, S1=S1, S2=S2, lim=limit_of(mt, t0, t1),
              inputs={a: ('array', a, s1.n), b: ('array', b, s2.n), 't_start': ('real', 't_start'), 't_end': ('real', 't_end'),
                      'max_tau': ('real', 'max_tau'), 'MRTS': ('real', 'MRTS')},
              argorder=[a, b, 't_start', 't_end', 'max_tau', 'MRTS'])
    return pre, ctx


def model_get_tau(eng, args, kw, st, pc, node):
    """call model = GetTau contract seen from the caller"""
    s1, s2, i, j, lim, M = args
    S1, S2 = st.acc(s1), st.acc(s2)
    pre = band(cmp('>=', i, -1), cmp('<', i, S1.n), cmp('>=', j, -1), cmp('<', j, S2.n))
    eng.oblige("call.get_tau.pre@%d" % node.lineno, pc, pre, kind='call')
    return tau_spec(S1, S2, i, j, lim, M)


# ---------------------------------------------------------------------------------------------
class GetTau(Contract):
    """get_tau (python_backend.py, nested Interpolate) and cython_get_tau.pyx (module level Interpolate)"""
    rel = 'pyspike/cython/python_backend.py'
    func = 'get_tau'

    def __init__(self, rel=None):
        if rel:
            self.rel = rel

    def setup(self, mode, size, values=None):
        st = State()
        if mode == 'P':
            N1, N2, i, j = z3.Int('N1'), z3.Int('N2'), z3.Int('i'), z3.Int('j')
        else:
            N1, N2, i, j = size
        if values is not None:
            i, j = int(values['i']), int(values['j'])
        lim, M = in_real('max_tau', values), in_real('MRTS', values)
        s1 = in_array(st, 'spikes1', N1, mode, values)
        s2 = in_array(st, 'spikes2', N2, mode, values)
        N1, N2 = s1.n, s2.n
        st.vars.update(spikes1=s1, spikes2=s2, i=i, j=j, max_tau=lim, MRTS=M)
        S1, S2 = st.acc(s1), st.acc(s2)
        pre = [cmp('>=', N1, 0), cmp('>=', N2, 0), spec.sorted_strict(S1), spec.sorted_strict(S2),
               cmp('>=', i, -1), cmp('<', i, N1), cmp('>=', j, -1), cmp('<', j, N2), cmp('>', lim, 0), cmp('>=', M, 0)]
        ctx = Ctx(mode=mode, N1=N1, N2=N2, i=i, j=j, lim=lim, M=M, S1=S1, S2=S2,
                  inputs=dict(spikes1=('array', 'spikes1', N1), spikes2=('array', 'spikes2', N2),
                              i=('const', i) if isinstance(i, int) else ('int', 'i'),
                              j=('const', j) if isinstance(j, int) else ('int', 'j'),
                              max_tau=('real', 'max_tau'), MRTS=('real', 'MRTS')),
                  argorder=['spikes1', 'spikes2', 'i', 'j', 'max_tau', 'MRTS'])
        return st, pre, ctx

    def posts(self, st, ret, c):
        t, f = split(ret)
        mP1, mF1, mP2, mF2 = half_isis(c.S1, c.S2, c.i, c.j, c.lim)
        return [('value', cmp('==', t, tau_spec(c.S1, c.S2, c.i, c.j, c.lim, c.M))), ('finite', f),
                ('positive', cmp('>', t, 0)),
                # C16: the window never exceeds half of the limit handed in (= max_tau when max_tau > 0)
                ('cap', cmp('<=', t, arith('*', Fraction(1, 2), c.lim)))]


# ---------------------------------------------------------------------------------------------
class SyncBase(Contract):
    """common parts of the merged-scan kernels"""
    names = ('spikes1', 'spikes2')
    tau_name = 'get_tau'

    def __init__(self, rel=None, func=None):
        if rel:
            self.rel = rel
        if func:
            self.func = func

    def call_models(self, mode):
        return {'get_tau': model_get_tau}

    def setup(self, mode, size, values=None):
        if mode != 'B':
            raise NotImplementedError
        st = State()
        pre, ctx = trains_setup(st, mode, size, values, self.names)
        return st, pre, ctx

    # pairwise definitions ---------------------------------------------------------------------
    @staticmethod
    def partner_exists(c, i, which):
        """spike i of train `which` (1|2) is coincident with some spike of the other train"""
        if which == 1:
            return bor(*[coincident(c.S1, c.S2, i, j, c.lim, c.M) for j in range(c.N2)])
        return bor(*[coincident(c.S1, c.S2, j, i, c.lim, c.M) for j in range(c.N1)])

    @staticmethod
    def sign(c, i, which):
        """C04: +1 if spike i of train `which` leads its coincident partner, -1 if it follows, 0 otherwise"""
        if which == 1:
            lead = bor(*[band(coincident(c.S1, c.S2, i, j, c.lim, c.M), cmp('<', c.S1[i], c.S2[j])) for j in range(c.N2)])
            foll = bor(*[band(coincident(c.S1, c.S2, i, j, c.lim, c.M), cmp('>', c.S1[i], c.S2[j])) for j in range(c.N2)])
        else:
            lead = bor(*[band(coincident(c.S1, c.S2, j, i, c.lim, c.M), cmp('<', c.S2[i], c.S1[j])) for j in range(c.N1)])
            foll = bor(*[band(coincident(c.S1, c.S2, j, i, c.lim, c.M), cmp('>', c.S2[i], c.S1[j])) for j in range(c.N1)])
        return ite(lead, 1, ite(foll, -1, 0)), band(bnot(band(lead, foll)))

    def cap(self, c):
        """C16: with max_tau > 0 coincident spikes are closer than max_tau"""
        out = []
        for i in range(c.N1):
            for j in range(c.N2):
                out.append(implies(band(cmp('>', c.mt, 0), coincident(c.S1, c.S2, i, j, c.lim, c.M)),
                                   cmp('<', rabs(arith('-', c.S1[i], c.S2[j])), c.mt)))
        return band(*out)


class DiscreteProfile(SyncBase):
    """coincidence_python / coincidence_profile_cython (kind='sync') and the order profile (kind='order')"""
    rel = 'pyspike/cython/python_backend.py'
    func = 'coincidence_python'
    kind = 'sync'

    def __init__(self, rel=None, func=None, kind='sync'):
        SyncBase.__init__(self, rel, func)
        self.kind = kind

    def posts(self, st, ret, c):
        x, y, mp = ret
        X, Y, MP = st.acc(x), st.acc(y), st.acc(mp)
        n = X.n
        out = [('shape', band(cmp('==', Y.n, n), cmp('==', MP.n, n), cmp('>=', n, 2), cmp('==', X[0], c.t0), cmp('==', X[n - 1], c.t1)))]
        if not isinstance(n, int) or n < 2:
            return out
        ev = range(1, n - 1)
        out.append(('incr', band(*([cmp('<', X[k], X[k + 1]) for k in range(1, n - 2)] +
                                   ([cmp('<=', X[0], X[1]), cmp('<=', X[n - 2], X[n - 1])])))))
        out.append(('all_spikes_present', band(*([bor(*[cmp('==', X[k], c.S1[i]) for k in ev]) for i in range(c.N1)] +
                                                 [bor(*[cmp('==', X[k], c.S2[j]) for k in ev]) for j in range(c.N2)]))))
        for k in ev:
            in1 = [cmp('==', X[k], c.S1[i]) for i in range(c.N1)]
            in2 = [cmp('==', X[k], c.S2[j]) for j in range(c.N2)]
            both = band(bor(*in1), bor(*in2))
            out.append(('is_spike[%d]' % k, bor(*(in1 + in2))))
            out.append(('mp[%d]' % k, cmp('==', MP[k], ite(both, 2, 1))))
            if self.kind == 'sync':
                c1 = bor(*[band(in1[i], self.partner_exists(c, i, 1)) for i in range(c.N1)])
                c2 = bor(*[band(in2[j], self.partner_exists(c, j, 2)) for j in range(c.N2)])
                out.append(('c[%d]' % k, cmp('==', Y[k], ite(both, 2, ite(bor(c1, c2), 1, 0)))))
            else:
                # order profile: both spikes of a coincident pair get +1 when train 1 leads, -1 when it follows
                v = 0
                for i in range(c.N1):
                    sg, _ = self.sign(c, i, 1)
                    v = ite(band(in1[i], bnot(both)), sg, v)
                for j in range(c.N2):
                    sg, _ = self.sign(c, j, 2)
                    v = ite(band(in2[j], bnot(both)), neg(sg) if not is_z3(sg) else -sg, v)
                out.append(('a[%d]' % k, cmp('==', Y[k], ite(both, 0, v))))
        if c.N1 + c.N2 > 0:
            out.append(('edges', band(cmp('==', Y[0], Y[1]), cmp('==', Y[n - 1], Y[n - 2]), cmp('==', MP[0], MP[1]),
                                      cmp('==', MP[n - 1], MP[n - 2]))))
        else:
            out.append(('edges', band(cmp('==', Y[0], 1), cmp('==', Y[1], 1), cmp('==', MP[0], 1), cmp('==', MP[1], 1))))
        out.append(('cap', self.cap(c)))
        # mutual & one-to-one: both trains contribute the same number of coincident spikes
        if self.kind == 'sync':
            cnt1 = 0
            for i in range(c.N1):
                cnt1 = arith('+', cnt1, ite(self.partner_exists(c, i, 1), 1, 0))
            cnt2 = 0
            for j in range(c.N2):
                cnt2 = arith('+', cnt2, ite(self.partner_exists(c, j, 2), 1, 0))
            out.append(('mutual', cmp('==', cnt1, cnt2)))
        return out


class CoincidenceSingle(SyncBase):
    rel = 'pyspike/cython/python_backend.py'
    func = 'coincidence_single_python'

    def posts(self, st, ret, c):
        C = st.acc(ret)
        out = [('shape', cmp('==', C.n, c.N1))]
        for i in range(c.N1):
            out.append(('c[%d]' % i, cmp('==', C[i], ite(self.partner_exists(c, i, 1), 1, 0))))
        return out


class DirectionalityProfile(SyncBase):
    rel = 'pyspike/cython/directionality_python_backend.py'
    func = 'spike_directionality_profile_python'

    def posts(self, st, ret, c):
        d1, d2 = ret
        D1, D2 = st.acc(d1), st.acc(d2)
        out = [('shape', band(cmp('==', D1.n, c.N1), cmp('==', D2.n, c.N2)))]
        for i in range(c.N1):
            sg, uniq = self.sign(c, i, 1)
            out.append(('d1[%d]' % i, cmp('==', D1[i], sg)))
            out.append(('unique1[%d]' % i, uniq))
        for j in range(c.N2):
            sg, uniq = self.sign(c, j, 2)
            out.append(('d2[%d]' % j, cmp('==', D2[j], sg)))
        out.append(('cap', self.cap(c)))
        return out


class SinglePass(SyncBase):
    """compiled single-pass routines: (c, mp) of coincidence_value_cython / spike_train_order_cython and the
    scalar of spike_directionality_cython against the sums of the profile specs"""

    def __init__(self, rel, func, kind):
        SyncBase.__init__(self, rel, func)
        self.kind = kind

    def posts(self, st, ret, c):
        both = lambda i: bor(*[cmp('==', c.S1[i], c.S2[j]) for j in range(c.N2)])
        nboth = 0
        for i in range(c.N1):
            nboth = arith('+', nboth, ite(both(i), 1, 0))
        if self.kind == 'directionality':
            tot = 0
            for i in range(c.N1):
                tot = arith('+', tot, self.sign(c, i, 1)[0])
            return [('sum_d1', cmp('==', split(ret)[0], tot))]
        cval, mp = ret
        total_mp = arith('+', c.N1 + c.N2, 0)                 # every spike counts once; shared times: one event, mp 2
        if self.kind == 'sync':
            tot = 0
            for i in range(c.N1):
                tot = arith('+', tot, ite(both(i), 2, ite(self.partner_exists(c, i, 1), 1, 0)))
            for j in range(c.N2):
                shared = bor(*[cmp('==', c.S1[i], c.S2[j]) for i in range(c.N1)])
                tot = arith('+', tot, ite(shared, 0, ite(self.partner_exists(c, j, 2), 1, 0)))
            return [('c', cmp('==', split(cval)[0], tot)), ('mp', cmp('==', split(mp)[0], total_mp))]
        # order: sum over events of the profile value (pair counted twice), simultaneous spikes 0
        tot = 0
        for i in range(c.N1):
            tot = arith('+', tot, ite(both(i), 0, self.sign(c, i, 1)[0]))
        for j in range(c.N2):
            shared = bor(*[cmp('==', c.S1[i], c.S2[j]) for i in range(c.N1)])
            sg = self.sign(c, j, 2)[0]
            tot = arith('+', tot, ite(shared, 0, neg(sg) if not is_z3(sg) else -sg))
        return [('c', cmp('==', split(cval)[0], tot)), ('mp', cmp('==', split(mp)[0], total_mp))]
