"""C01 contract of the ISI-profile kernel (python_backend.isi_distance_python and the extracted
cython_profiles.isi_profile_cython share it: same parameter and local names)."""
import z3
from ..sym import *  # noqa
from ..engine import LoopSpec
from ..harness import Contract, Ctx, in_array, in_real
from .. import spec


class IsiProfile(Contract):
    rel = 'pyspike/cython/python_backend.py'
    func = 'isi_distance_python'
    nf_arrays = ('isi_values',)

    def __init__(self, rel=None, func=None):
        if rel:
            self.rel = rel
        if func:
            self.func = func
        self.loops = {1: LoopSpec(
            inv=[('range', self.inv_range), ('nu', self.inv_nu), ('cur', self.inv_cur), ('incr', self.inv_incr),
                 ('glast', self.inv_glast), ('vals', self.inv_vals), ('right', self.inv_right)],
            init=self.ghost_init, step=self.ghost_step, ghost=('g1', 'g2'))}

    # ------------------------------------------------------------------ inputs / precondition
    def setup(self, mode, size, values=None):
        st = State()
        if mode == 'B':
            N1, N2 = size
        else:
            N1, N2 = z3.Int('N1'), z3.Int('N2')
        t0, t1, M = in_real('t_start', values), in_real('t_end', values), in_real('MRTS', values)
        s1 = in_array(st, 's1', N1, mode, values)
        s2 = in_array(st, 's2', N2, mode, values)
        st.vars.update(s1=s1, s2=s2, t_start=t0, t_end=t1, MRTS=M)
        S1, S2 = st.acc(s1), st.acc(s2)
        pre = [cmp('<', t0, t1), cmp('>=', M, 0), spec.valid_train(S1, t0, t1), spec.valid_train(S2, t0, t1)]
        pre = [p for p in pre if p is not True]
        ctx = Ctx(mode=mode, N1=N1, N2=N2, t0=t0, t1=t1, M=M, s1=s1, s2=s2, S1=S1, S2=S2,
                  inputs=dict(s1=('array', 's1', N1), s2=('array', 's2', N2), t_start=('real', 't_start'),
                              t_end=('real', 't_end'), MRTS=('real', 'MRTS')),
                  argorder=['s1', 's2', 't_start', 't_end', 'MRTS'])
        return st, pre, ctx

    # ------------------------------------------------------------------ loop invariant (P mode)
    def inv_range(self, st, c):
        i1, i2, ix = st.vars['index1'], st.vars['index2'], st.vars['index']
        return z3.And(-1 <= i1, i1 <= c.N1 - 1, -1 <= i2, i2 <= c.N2 - 1, 1 <= ix, ix <= i1 + i2 + 3,
                      toI(st.vars['spike_events'].n) == c.N1 + c.N2 + 2, toI(st.vars['isi_values'].n) == c.N1 + c.N2 + 1)

    def inv_nu(self, st, c):
        return z3.And(st.vars['nu1'] == spec.nu(c.S1, st.vars['index1'], c.t0, c.t1),
                      st.vars['nu2'] == spec.nu(c.S2, st.vars['index2'], c.t0, c.t1))

    def inv_cur(self, st, c):
        i1, i2, ix = st.vars['index1'], st.vars['index2'], st.vars['index']
        ev = st.acc('spike_events')
        cu = rmax(spec.cur(c.S1, i1, c.t0), spec.cur(c.S2, i2, c.t0))
        return z3.And(ev[ix - 1] == cu, ev[0] == c.t0,
                      z3.Implies(i1 < c.N1 - 1, c.S1[i1 + 1] > cu), z3.Implies(i2 < c.N2 - 1, c.S2[i2 + 1] > cu),
                      z3.Implies(i1 == -1, c.S1[0] > c.t0), z3.Implies(i2 == -1, c.S2[0] > c.t0))

    def inv_incr(self, st, c):
        ix = st.vars['index']
        ev = st.acc('spike_events')
        return forall(0, ix - 1, lambda k: ev[k] < ev[k + 1])

    def inv_glast(self, st, c):
        ix = st.vars['index']
        return z3.And(z3.Select(st.vars['g1'], ix - 1) == st.vars['index1'],
                      z3.Select(st.vars['g2'], ix - 1) == st.vars['index2'])

    def seg_left(self, st, c, k, ev, iv):
        g1, g2 = z3.Select(st.vars['g1'], k), z3.Select(st.vars['g2'], k)
        n1, n2 = spec.nu(c.S1, g1, c.t0, c.t1), spec.nu(c.S2, g2, c.t0, c.t1)
        return z3.And(-1 <= g1, g1 <= c.N1 - 1, -1 <= g2, g2 <= c.N2 - 1,
                      iv[k] == spec.ratio(n1, n2, c.M),
                      z3.Implies(ev[k] < c.t1, iv.fin(k)),
                      z3.Implies(g1 >= 0, c.S1[g1] <= ev[k]), z3.Implies(g2 >= 0, c.S2[g2] <= ev[k]),
                      z3.Implies(g1 == -1, c.S1[0] > ev[k]), z3.Implies(g2 == -1, c.S2[0] > ev[k]),
                      z3.Implies(k >= 1, z3.Or(z3.And(g1 >= 0, ev[k] == c.S1[g1]), z3.And(g2 >= 0, ev[k] == c.S2[g2]))))

    def inv_vals(self, st, c):
        ix = st.vars['index']
        ev, iv = st.acc('spike_events'), st.acc('isi_values')
        return forall(0, ix, lambda k: self.seg_left(st, c, k, ev, iv))

    def inv_right(self, st, c):
        ix = st.vars['index']
        ev = st.acc('spike_events')
        g1, g2 = st.vars['g1'], st.vars['g2']
        return forall(0, ix - 1, lambda k: z3.And(
            z3.Implies(z3.Select(g1, k) < c.N1 - 1, ev[k + 1] <= c.S1[z3.Select(g1, k) + 1]),
            z3.Implies(z3.Select(g2, k) < c.N2 - 1, ev[k + 1] <= c.S2[z3.Select(g2, k) + 1])))

    def ghost_init(self, st, c):
        st.vars['g1'] = z3.Store(z3.Const('g1_0', IARR), 0, toI(st.vars['index1']))
        st.vars['g2'] = z3.Store(z3.Const('g2_0', IARR), 0, toI(st.vars['index2']))

    def ghost_step(self, st, c):
        ix = st.vars['index']
        st.vars['g1'] = z3.Store(st.vars['g1'], ix - 1, toI(st.vars['index1']))
        st.vars['g2'] = z3.Store(st.vars['g2'], ix - 1, toI(st.vars['index2']))

    # ------------------------------------------------------------------ postcondition (from the C01 statement)
    def posts(self, st, ret, c):
        x, y = ret
        X, Y = st.acc(x), st.acc(y)
        n = Y.n
        out = [('shape', band(cmp('==', X.n, arith('+', n, 1)), cmp('>=', n, 1), X[0] == c.t0, X[n] == c.t1)),
               ('incr', forall(0, n, lambda k: X[k] < X[k + 1]))]
        if c.mode == 'P':
            g1, g2 = st.vars['g1'], st.vars['g2']

            def seg(k):
                a, b = z3.Select(g1, k), z3.Select(g2, k)
                return z3.And(-1 <= a, a <= c.N1 - 1, -1 <= b, b <= c.N2 - 1,
                              spec.covers(c.S1, a, X[k], X[k + 1]), spec.covers(c.S2, b, X[k], X[k + 1]),
                              Y[k] == spec.ratio(spec.nu(c.S1, a, c.t0, c.t1), spec.nu(c.S2, b, c.t0, c.t1), c.M),
                              spec.ratio_den(spec.nu(c.S1, a, c.t0, c.t1), spec.nu(c.S2, b, c.t0, c.t1), c.M) > 0)

            def member(k):
                a, b = z3.Select(g1, k), z3.Select(g2, k)
                return z3.Or(z3.And(a >= 0, X[k] == c.S1[a]), z3.And(b >= 0, X[k] == c.S2[b]))
        else:
            def seg(k):
                alts = []
                for a in range(-1, c.N1):
                    for b in range(-1, c.N2):
                        n1, n2 = spec.nu(c.S1, a, c.t0, c.t1), spec.nu(c.S2, b, c.t0, c.t1)
                        alts.append(band(spec.covers(c.S1, a, X[k], X[k + 1]), spec.covers(c.S2, b, X[k], X[k + 1]),
                                         Y[k] == spec.ratio(n1, n2, c.M), spec.ratio_den(n1, n2, c.M) > 0))
                return bor(*alts)

            def member(k):
                return bor(*([X[k] == c.S1[i] for i in range(c.N1)] + [X[k] == c.S2[j] for j in range(c.N2)]))
        out.append(('vals', forall(0, n, seg)))
        out.append(('member', forall(1, n, member)))
        out.append(('finite', forall(0, n, lambda k: Y.fin(k))))
        # no spike of either train strictly inside a segment  (=> breakpoints are exactly edges + interior spikes)
        if c.mode == 'P':
            return out   # 'no spike strictly inside a segment' follows from `covers` by lemma covers_nospike (L)
        out.append(('nospike1', forall(0, n, lambda k: forall(0, c.N1, lambda i: z3.Not(z3.And(X[k] < c.S1[i], c.S1[i] < X[k + 1])), name='i'))))
        out.append(('nospike2', forall(0, n, lambda k: forall(0, c.N2, lambda j: z3.Not(z3.And(X[k] < c.S2[j], c.S2[j] < X[k + 1])), name='j'))))
        return out
