"""C10 / C11 contracts of the three function classes (methods of PieceWiseConstFunc, PieceWiseLinFunc,
DiscreteFunc). Bounded in the number of pieces / events; all breakpoints, values and interval ends real."""
import z3
from ..sym import *  # noqa
from ..harness import Contract, Ctx, in_array, in_real
from .. import spec

HALF = Fraction(1, 2)


def interp(x0, x1, y0, y1, x):
    return arith('+', y0, arith('/', arith('*', arith('-', y1, y0), arith('-', x, x0)), arith('-', x1, x0)))


def pos(v):
    return rmax(v, 0)


class FuncBase(Contract):
    cls = None
    fields = ()
    method = None
    kind = 'pwc'

    def __init__(self, method, variant=None):
        self.func = method
        self.variant = variant

    def make_self(self, st, mode, n, values):
        """record with arrays: x (n+1), value arrays (n)"""
        f = {'__local__': False}
        if self.kind == 'disc':
            for nm in ('x', 'y', 'mp'):
                f[nm] = in_array(st, nm, n + 2, mode, values)
        else:
            f['x'] = in_array(st, 'x', n + 1, mode, values)
            for nm in self.fields[1:]:
                f[nm] = in_array(st, nm, n, mode, values)
        rec = st.new_rec(self.cls, f)
        st.vars['self'] = rec
        return rec, {k: st.acc(v) for k, v in f.items() if k != '__local__'}

    def wf(self, A, n):
        if self.kind == 'disc':
            X = A['x']
            m = X.n
            pre = [cmp('<', X[0], X[m - 1])] + [cmp('<', X[k], X[k + 1]) for k in range(1, m - 2)]
            if m > 2:
                pre += [cmp('<=', X[0], X[1]), cmp('<=', X[m - 2], X[m - 1])]
            pre += [cmp('>', A['mp'][k], 0) for k in range(m)]
            return pre
        return [spec.sorted_strict(A['x'])]

    def self_inputs(self, A):
        """(inputs, argspec entry) describing the receiving object for replay on the real class"""
        return {k: ('array', k, A[k].n) for k in A}, ('obj', self.cls, {k: k for k in A})


# =============================================================================================
# integral / avrg
class Integral(FuncBase):
    """integral(interval) and avrg(interval): variant in none | one | same-piece etc. is covered by symbolic a, b;
    variant 'list2' passes two intervals"""

    def setup(self, mode, size, values=None):
        st = State()
        n = size[0]
        variant = size[1]
        rec, A = self.make_self(st, mode, n, values)
        a, b = in_real('a', values), in_real('b', values)
        X = A['x']
        m = X.n
        pre = self.wf(A, n)
        ctx = Ctx(mode=mode, n=n, A=A, a=a, b=b, variant=variant, rec=rec)
        inputs, selfspec = self.self_inputs(A)
        ctx.argspec = [selfspec]
        if variant == 'none':
            st.vars['interval'] = None
        elif variant == 'one':
            st.vars['interval'] = (a, b)
            pre += [cmp('<', a, b), cmp('<=', X[0], a), cmp('<=', b, X[m - 1])]
            inputs.update(a=('real', 'a'), b=('real', 'b'))
            ctx.argspec.append(('tuple', ['a', 'b']))
        elif variant == 'list2':
            a2, b2 = in_real('a2', values), in_real('b2', values)
            st.vars['interval'] = [(a, b), (a2, b2)]
            pre += [cmp('<', a, b), cmp('<=', X[0], a), cmp('<=', b, X[m - 1]), cmp('<', a2, b2), cmp('<=', X[0], a2), cmp('<=', b2, X[m - 1])]
            ctx.a2, ctx.b2 = a2, b2
            inputs.update(a=('real', 'a'), b=('real', 'b'), a2=('real', 'a2'), b2=('real', 'b2'))
            ctx.argspec.append(('tuplelist', [['a', 'b'], ['a2', 'b2']]))
        ctx.inputs = inputs
        ctx.argorder = []
        return st, pre, ctx

    # exact Riemann integral over [lo, hi] from the definition (sum over pieces of value * overlap length)
    def riemann(self, A, lo, hi, hyp=None):
        from ..harness import fold_max, fold_min, fold_bool
        X = A['x']
        tot = 0
        if self.kind == 'pwc':
            for k in range(A['y'].n):
                ov = fold_max(hyp, arith('-', fold_min(hyp, hi, X[k + 1]), fold_max(hyp, lo, X[k])), 0)
                tot = arith('+', tot, arith('*', A['y'][k], ov))
            return tot
        if self.kind == 'pwl':
            for k in range(A['y1'].n):
                l, h = fold_max(hyp, lo, X[k]), fold_min(hyp, hi, X[k + 1])
                f = lambda t: interp(X[k], X[k + 1], A['y1'][k], A['y2'][k], t)
                area = arith('*', arith('*', HALF, arith('+', f(l), f(h))), arith('-', h, l))
                tot = arith('+', tot, ite(fold_bool(hyp, cmp('<', l, h)), area, 0))
            return tot
        raise NotImplementedError

    def disc_sums(self, A, lo, hi):
        X = A['x']
        m = X.n
        sy, sm = 0, 0
        for k in range(1, m - 1):
            inside = True if lo is None else band(cmp('<', lo, X[k]), cmp('<', X[k], hi))
            sy = arith('+', sy, ite(inside, A['y'][k], 0))
            sm = arith('+', sm, ite(inside, A['mp'][k], 0))
        return sy, sm

    def call_models(self, mode):
        """avrg is verified against the CONTRACT of integral (modular): the callee is not entered"""
        if self.func != 'avrg':
            return {}

        def integral_model(eng, args, kw, st, pc, node):
            rec = args[0]
            iv = args[1] if len(args) > 1 else kw.get('interval')
            A = {k: st.acc(v) for k, v in st.heap[rec.id].items() if not k.startswith('__')}
            X = A['x']
            m = X.n
            if iv is None:
                if self.kind == 'disc':
                    return self.disc_sums(A, None, None)
                return self.riemann(A, X[0], X[m - 1])
            if isinstance(iv, (tuple, list)) and len(iv) == 2 and not isinstance(iv[0], (tuple, list)):
                lo, hi = iv
                eng.oblige("call.integral.pre@%d" % node.lineno, pc,
                           band(cmp('<', lo, hi), cmp('<=', X[0], lo), cmp('<=', hi, X[m - 1])), kind='call')
                if self.kind == 'disc':
                    return self.disc_sums(A, lo, hi)
                return self.riemann(A, lo, hi)
            # list of intervals handed through (DiscreteFunc.avrg): sums add up
            tot = None
            for (lo, hi) in iv:
                eng.oblige("call.integral.pre@%d" % node.lineno, pc,
                           band(cmp('<', lo, hi), cmp('<=', X[0], lo), cmp('<=', hi, X[m - 1])), kind='call')
                s_ = self.disc_sums(A, lo, hi) if self.kind == 'disc' else self.riemann(A, lo, hi)
                if tot is None:
                    tot = s_
                elif self.kind == 'disc':
                    tot = (arith('+', tot[0], s_[0]), arith('+', tot[1], s_[1]))
                else:
                    tot = arith('+', tot, s_)
            return tot
        return {self.cls + '.integral': integral_model}

    def expected(self, c):
        A = c.A
        X = A['x']
        m = X.n
        if self.kind == 'disc':
            if c.variant == 'none':
                return self.disc_sums(A, None, None), None
            if c.variant == 'one':
                return self.disc_sums(A, c.a, c.b), None
            s1, s2 = self.disc_sums(A, c.a, c.b), self.disc_sums(A, c.a2, c.b2)
            return (arith('+', s1[0], s2[0]), arith('+', s1[1], s2[1])), None
        hyp = getattr(c, 'pc_hyp', None) if self.func == 'integral' else None
        if c.variant == 'none':
            return self.riemann(A, X[0], X[m - 1], hyp), arith('-', X[m - 1], X[0])
        if c.variant == 'one':
            return self.riemann(A, c.a, c.b, hyp), arith('-', c.b, c.a)
        return (arith('+', self.riemann(A, c.a, c.b, hyp), self.riemann(A, c.a2, c.b2, hyp)),
                arith('+', arith('-', c.b, c.a), arith('-', c.b2, c.a2)))

    def posts(self, st, ret, c):
        exp, length = self.expected(c)
        if self.kind == 'disc':
            if self.func == 'integral':
                v, mp = ret
                return [('value', cmp('==', split(v)[0], split(exp[0])[0])), ('multiplicity', cmp('==', split(mp)[0], split(exp[1])[0])),
                        ('finite', band(split(v)[1], split(mp)[1]))]
            t, f = split(ret)
            ratio = ite(cmp('>', exp[1], 0), arith('/', exp[0], exp[1]), 1)
            return [('ratio_or_one', cmp('==', t, split(ratio)[0])), ('finite', f)]
        t, f = split(ret)
        if self.func == 'integral':
            if c.variant == 'list2':
                return []
            return [('riemann', cmp('==', t, split(exp)[0])), ('finite', f)]
        return [('mean', cmp('==', t, split(arith('/', exp, length))[0])), ('finite', f)]


class PwcIntegral(Integral):
    rel = 'pyspike/PieceWiseConstFunc.py'
    cls = 'PieceWiseConstFunc'
    fields = ('x', 'y')
    kind = 'pwc'


class PwlIntegral(Integral):
    rel = 'pyspike/PieceWiseLinFunc.py'
    cls = 'PieceWiseLinFunc'
    fields = ('x', 'y1', 'y2')
    kind = 'pwl'


class DiscIntegral(Integral):
    rel = 'pyspike/DiscreteFunc.py'
    cls = 'DiscreteFunc'
    fields = ('x', 'y', 'mp')
    kind = 'disc'


# =============================================================================================
# evaluation at a single time, plottable data
class Evaluate(FuncBase):
    func = '__call__'

    def __init__(self):
        pass

    def setup(self, mode, size, values=None):
        st = State()
        n = size[0]
        rec, A = self.make_self(st, mode, n, values)
        t = in_real('t', values)
        st.vars['t'] = t
        X = A['x']
        pre = self.wf(A, n) + [cmp('<=', X[0], t), cmp('<=', t, X[n])]
        inputs, selfspec = self.self_inputs(A)
        inputs['t'] = ('real', 't')
        ctx = Ctx(mode=mode, n=n, A=A, t=t, inputs=inputs, argorder=[], argspec=[selfspec, ('val', 't')])
        return st, pre, ctx

    def point_spec(self, A, n, t, v, f, tag=''):
        X = A['x']
        if self.kind == 'pwc':
            left = lambda k: A['y'][k]            # value of piece k (both limits)
            right = left
            inside = lambda k: A['y'][k]
        else:
            left = lambda k: A['y1'][k]           # limit at the left end of piece k
            right = lambda k: A['y2'][k]          # limit at the right end of piece k
            inside = lambda k: interp(X[k], X[k + 1], A['y1'][k], A['y2'][k], t)
        out = [('finite' + tag, f), ('start' + tag, implies(cmp('==', t, X[0]), cmp('==', v, left(0)))),
               ('end' + tag, implies(cmp('==', t, X[n]), cmp('==', v, right(n - 1))))]
        for k in range(1, n):
            out.append(('breakpoint[%d]%s' % (k, tag), implies(cmp('==', t, X[k]), cmp('==', v, split(arith('*', HALF, arith('+', right(k - 1), left(k))))[0]))))
        for k in range(n):
            out.append(('piece[%d]%s' % (k, tag), implies(band(cmp('<', X[k], t), cmp('<', t, X[k + 1])), cmp('==', v, split(inside(k))[0]))))
        return out

    def posts(self, st, ret, c):
        if getattr(c, 'ts', None) is not None:
            R_ = st.acc(ret)
            out = [('shape', cmp('==', R_.n, len(c.ts)))]
            for i, t in enumerate(c.ts):
                if isinstance(R_.n, int) and i < R_.n:
                    out += self.point_spec(c.A, c.n, t, R_[i], R_.fin(i), '@t%d' % i)
            return out
        v, f = split(ret)
        return self.point_spec(c.A, c.n, c.t, v, f)


class EvaluateSeq(Evaluate):
    """__call__ with a LIST of times (vectorised path): every entry equals the single-time value"""

    def setup(self, mode, size, values=None):
        st = State()
        n, m = size
        rec, A = self.make_self(st, mode, n, values)
        ts = [in_real('t%d' % i, values) for i in range(m)]
        st.vars['t'] = list(ts)
        X = A['x']
        pre = self.wf(A, n) + [band(cmp('<=', X[0], t), cmp('<=', t, X[n])) for t in ts]
        inputs, selfspec = self.self_inputs(A)
        for i in range(m):
            inputs['t%d' % i] = ('real', 't%d' % i)
        ctx = Ctx(mode=mode, n=n, A=A, ts=ts, inputs=inputs, argorder=[], argspec=[selfspec, ('reallist', ['t%d' % i for i in range(m)])])
        return st, pre, ctx


class PwcEvalSeq(EvaluateSeq):
    rel = 'pyspike/PieceWiseConstFunc.py'
    cls = 'PieceWiseConstFunc'
    fields = ('x', 'y')
    kind = 'pwc'


class PwlEvalSeq(EvaluateSeq):
    rel = 'pyspike/PieceWiseLinFunc.py'
    cls = 'PieceWiseLinFunc'
    fields = ('x', 'y1', 'y2')
    kind = 'pwl'


class PwcEval(Evaluate):
    rel = 'pyspike/PieceWiseConstFunc.py'
    cls = 'PieceWiseConstFunc'
    fields = ('x', 'y')
    kind = 'pwc'


class PwlEval(Evaluate):
    rel = 'pyspike/PieceWiseLinFunc.py'
    cls = 'PieceWiseLinFunc'
    fields = ('x', 'y1', 'y2')
    kind = 'pwl'


class Plottable(FuncBase):
    func = 'get_plottable_data'

    def __init__(self):
        pass

    def setup(self, mode, size, values=None):
        st = State()
        n = size[0]
        rec, A = self.make_self(st, mode, n, values)
        if self.kind == 'disc':
            st.vars['averaging_window_size'] = 0
        inputs, selfspec = self.self_inputs(A)
        ctx = Ctx(mode=mode, n=n, A=A, inputs=inputs, argorder=[], argspec=[selfspec])
        return st, self.wf(A, n), ctx

    def posts(self, st, ret, c):
        xp, yp = ret
        XP, YP = st.acc(xp), st.acc(yp)
        A, n = c.A, c.n
        X = A['x']
        if self.kind == 'disc':
            m = X.n
            return [('shape', band(cmp('==', XP.n, m), cmp('==', YP.n, m))),
                    ('points', band(*[band(cmp('==', XP[k], X[k]), cmp('==', YP[k], split(arith('/', A['y'][k], A['mp'][k]))[0]), YP.fin(k)) for k in range(m)]))]
        out = [('shape', band(cmp('==', XP.n, 2 * n), cmp('==', YP.n, 2 * n)))]
        for k in range(n):
            yl = A['y'][k] if self.kind == 'pwc' else A['y1'][k]
            yr = A['y'][k] if self.kind == 'pwc' else A['y2'][k]
            out.append(('piece[%d]' % k, band(cmp('==', XP[2 * k], X[k]), cmp('==', XP[2 * k + 1], X[k + 1]),
                                              cmp('==', YP[2 * k], yl), cmp('==', YP[2 * k + 1], yr))))
        return out


class PwcPlot(Plottable):
    rel = 'pyspike/PieceWiseConstFunc.py'
    cls = 'PieceWiseConstFunc'
    fields = ('x', 'y')
    kind = 'pwc'


class PwlPlot(Plottable):
    rel = 'pyspike/PieceWiseLinFunc.py'
    cls = 'PieceWiseLinFunc'
    fields = ('x', 'y1', 'y2')
    kind = 'pwl'


class DiscPlot(Plottable):
    rel = 'pyspike/DiscreteFunc.py'
    cls = 'DiscreteFunc'
    fields = ('x', 'y', 'mp')
    kind = 'disc'


class DiscSmooth(FuncBase):
    """C11: DiscreteFunc.get_plottable_data(averaging_window_size=k>0). Multiplicities are concrete small integers
    (they are counts), values symbolic. size = (k, (mp_0, ..., mp_m-1))"""
    rel = 'pyspike/DiscreteFunc.py'
    cls = 'DiscreteFunc'
    func = 'get_plottable_data'
    fields = ('x', 'y', 'mp')
    kind = 'disc'

    def __init__(self):
        pass

    def setup(self, mode, size, values=None):
        st = State()
        k, mps = size
        m = len(mps)
        f = {'__local__': False, 'x': in_array(st, 'x', m, mode, values), 'y': in_array(st, 'y', m, mode, values)}
        f['mp'] = st.alloc([int(v) for v in mps], m, 'mp', local=False)
        rec = st.new_rec(self.cls, f)
        st.vars['self'] = rec
        st.vars['averaging_window_size'] = k
        A = {kk: st.acc(v) for kk, v in f.items() if kk != '__local__'}
        X = A['x']
        pre = [cmp('<=', X[i], X[i + 1]) for i in range(m - 1)]
        if values is None:
            values = {}
        inputs = {'x': ('array', 'x', m), 'y': ('array', 'y', m)}
        ctx = Ctx(mode=mode, k=k, mps=[int(v) for v in mps], A=A, inputs=inputs, argorder=[],
                  argspec=[('obj', self.cls, {'x': 'x', 'y': 'y', 'mp': ('const', {'__array__': [float(v) for v in mps]})}), ('const', k)])
        return st, pre, ctx

    def posts(self, st, ret, c):
        xp, yp = ret
        XP, YP = st.acc(xp), st.acc(yp)
        A, mps, k = c.A, c.mps, c.k
        m = len(mps)
        target = (k + 1) * mps[0]
        out = [('shape', band(cmp('==', XP.n, m), cmp('==', YP.n, m))), ('x', band(*[cmp('==', XP[i], A['x'][i]) for i in range(m)]))]
        for i in range(m):
            if mps[i] >= target:
                exp = arith('/', A['y'][i], mps[i])
            else:
                tot, cnt = A['y'][i], mps[i]
                for rng in (range(i + 1, m), range(i - 1, -1, -1)):      # nearest unit contributions to the right, then to the left
                    need = target - mps[i]
                    for j in rng:
                        if need <= 0:
                            break
                        take = min(mps[j], need)
                        tot = arith('+', tot, arith('/', arith('*', A['y'][j], take), mps[j]))
                        cnt += take
                        need -= take
                exp = arith('/', tot, cnt)
            out.append(('smoothed[%d]' % i, band(cmp('==', YP[i], split(exp)[0]), YP.fin(i))))
        return out


# =============================================================================================
class History(Contract):
    """C09 / C10 histories: drivers of pv/drivers.py over the real classes"""
    rel = 'verif:pv/drivers.py'

    def __init__(self, func, kind, config='fallback'):
        self.func, self.kind, self.config = func, kind, config
        self.vnames = ('y',) if kind == 'pwc' else (('y1', 'y2') if kind == 'pwl' else ('y', 'mp'))

    def setup(self, mode, size, values=None):
        st = State()
        inputs = {}
        argspec = []

        def arr(name, n):
            a = in_array(st, name, n, mode, values)
            st.vars[name] = a
            inputs[name] = ('array', name, a.n)
            argspec.append(('val', name))
            return st.acc(a)

        def real(name):
            v = in_real(name, values)
            st.vars[name] = v
            inputs[name] = ('real', name)
            argspec.append(('val', name))
            return v
        c = Ctx(mode=mode, inputs=inputs, argorder=[], argspec=argspec)
        pre = []
        if self.func.endswith('scale_then_eval'):
            n, m = size
            c.X = arr('x', n + 1)
            c.Y = [arr(v, n) for v in self.vnames]
            ts = [in_real('t%d' % i, values) for i in range(m)]
            st.vars['ts'] = list(ts)
            for i in range(m):
                inputs['t%d' % i] = ('real', 't%d' % i)
            argspec.append(('reallist', ['t%d' % i for i in range(m)]))
            c.ts = ts
            c.fac = real('fac')
            pre = [spec.sorted_strict(c.X)] + [band(cmp('<=', c.X[0], t), cmp('<=', t, c.X[n])) for t in ts]
        elif self.func.endswith('query_add_query'):
            n0, n = size
            disc = self.kind == 'disc'
            suffix0 = {'pwc': ['y0'], 'pwl': ['y10', 'y20'], 'disc': ['y0', 'mp0']}[self.kind]
            ext = 2 if disc else 1                 # discrete: edge, n events, edge ; piecewise: n pieces
            c.X0 = arr('x0', n0 + ext)
            c.Y0 = [arr(v, n0 + 2 if disc else n0) for v in suffix0]
            c.X = arr('x', n + ext)
            c.Y = [arr(v, n + 2 if disc else n) for v in self.vnames]
            c.a, c.b, c.fac = real('a'), real('b'), real('fac')
            l0, l1 = c.X0.n - 1, c.X.n - 1
            pre = [cmp('==', c.X0[0], c.X[0]), cmp('==', c.X0[l0], c.X[l1]), cmp('<', c.X0[0], c.X0[l0]),
                   cmp('<=', c.X0[0], c.a), cmp('<', c.a, c.b), cmp('<=', c.b, c.X0[l0])]
            if disc:
                for x_, ln in ((c.X0, l0), (c.X, l1)):
                    pre += [cmp('<', x_[k], x_[k + 1]) for k in range(1, ln - 1)]
                    pre += [cmp('<=', x_[0], x_[1]), cmp('<=', x_[ln - 1], x_[ln])] if ln > 1 else []
            else:
                pre += [spec.sorted_strict(c.X0), spec.sorted_strict(c.X)]
        elif self.func.endswith('accumulate'):
            n0, n = size
            suffix0 = ['y0'] if self.kind == 'pwc' else ['y10', 'y20']
            c.X0 = arr('x0', n0 + 1)
            c.Y0 = [arr(v, n0) for v in suffix0]
            c.X = arr('x', n + 1)
            c.Y = [arr(v, n) for v in self.vnames]
            c.fac = real('fac')
            pre = [spec.sorted_strict(c.X0), spec.sorted_strict(c.X), cmp('==', c.X0[0], c.X[0]), cmp('==', c.X0[n0], c.X[n])]
        else:
            n = size[0]
            c.X = arr('x', n + 1)
            c.Y = [arr(v, n) for v in self.vnames]
            c.fac = real('fac')
            pre = [spec.sorted_strict(c.X)]
        c.argspec = argspec
        return st, pre, c

    def posts(self, st, ret, c):
        t_ = lambda v: split(v)[0]
        if self.func.endswith('scale_then_eval'):
            a, b, cc = (st.acc(r) for r in ret)
            m = len(c.ts)
            return [('shape', band(cmp('==', a.n, m), cmp('==', b.n, m), cmp('==', cc.n, m))),
                    ('same_as_fresh_object', band(*[cmp('==', b[i], cc[i]) for i in range(min(m, b.n, cc.n))])),
                    ('scaled', band(*[cmp('==', b[i], t_(arith('*', c.fac, a[i]))) for i in range(min(m, a.n, b.n))])),
                    ('finite', band(*[band(a.fin(i), b.fin(i)) for i in range(min(m, a.n, b.n))]))]
        if self.func.endswith('query_add_query'):
            vals = [t_(v) for v in ret]
            k = len(vals) // 3
            return [('same_as_fresh_object[%d]' % i, cmp('==', vals[k + i], vals[2 * k + i])) for i in range(k)]
        if self.func.endswith('accumulate'):
            nv = len(self.vnames)
            out = []

            def same_arr(a, b):
                A_, B_ = st.acc(a), st.acc(b)
                if isinstance(A_.n, int) and isinstance(B_.n, int) and A_.n != B_.n:
                    return False
                return band(cmp('==', A_.n, B_.n), *[cmp('==', A_[k], B_[k]) for k in range(min(A_.n, B_.n))])
            for i in range(1 + nv):
                out.append(('same_as_with_fresh_operands[%d]' % i, same_arr(ret[i], ret[1 + nv + i])))
            fx = st.acc(ret[2 + 2 * nv])
            out.append(('operand_x_unchanged', band(cmp('==', fx.n, c.X.n), *[cmp('==', fx[k], c.X[k]) for k in range(min(fx.n, c.X.n))])))
            for i, Y in enumerate(c.Y):
                fy = st.acc(ret[3 + 2 * nv + i])
                out.append(('operand_values_unchanged[%d]' % i, band(cmp('==', fy.n, Y.n), *[cmp('==', fy[k], Y[k]) for k in range(min(fy.n, Y.n))])))
            return out
        # copy_independent
        gx = st.acc(ret[0])
        out = [('copy_x', band(cmp('==', gx.n, c.X.n), *[cmp('==', gx[k], c.X[k]) for k in range(min(gx.n, c.X.n))]))]
        nv = len(self.vnames)
        for i, Y in enumerate(c.Y):
            gy = st.acc(ret[1 + i])
            out.append(('copy_untouched_by_scaling_original[%d]' % i, band(cmp('==', gy.n, Y.n), *[cmp('==', gy[k], Y[k]) for k in range(min(gy.n, Y.n))])))
            fy = st.acc(ret[1 + nv + i] if self.kind == 'pwl' else ret[3])
            out.append(('original_scaled[%d]' % i, band(*[cmp('==', fy[k], t_(arith('*', Y[k], c.fac))) for k in range(min(fy.n, Y.n))])))
        return out
