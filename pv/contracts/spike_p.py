"""Inductive (unbounded) contract of the SPIKE-profile scan (spike_distance_python / spike_profile_cython) against the
C02 definition.  The nearest-spike distance of a time to the other train (incl. its auxiliary spikes) is an opaque
function MD2(tau) / MD1(tau): get_min_dist is replaced by its contract 'result = MD(tau)', of which only
0 <= MD(tau) <= |tau - e| for every member e is revealed (that is all the scan needs: MD = 0 at shared spike times)."""
import z3
from ..sym import *  # noqa
from ..engine import LoopSpec
from ..harness import Contract, Ctx, in_array, in_real
from .. import spec
from .spike import D

MD = {1: z3.Function('MD_of_train1', R, R),      # distance of a time to the nearest spike of train 1 (+ its aux spikes)
      2: z3.Function('MD_of_train2', R, R)}


class SpikeProfileP(Contract):
    rel = 'pyspike/cython/python_backend.py'
    func = 'spike_distance_python'
    nf_arrays = ('y_starts', 'y_ends')
    uf_arith = True          # products / quotients of two symbolic terms are abstracted (sym.UF), a few laws revealed

    def __init__(self, rel=None, func=None, names=('spikes1', 'spikes2'), RI=False):
        if rel:
            self.rel = rel
        if func:
            self.func = func
        self.names = names
        self.RI = RI
        self.pyx = self.rel.endswith('.pyx')
        self.loops = {1: LoopSpec(inv=[('range', self.inv_range), ('train1', lambda st, c: self.inv_train(st, c, 1)),
                                       ('train2', lambda st, c: self.inv_train(st, c, 2)), ('cur', self.inv_cur), ('incr', self.inv_incr),
                                       ('glast', self.inv_glast), ('starts', self.inv_starts), ('ends', self.inv_ends)],
                                  init=self.ghost_init, step=self.ghost_step, ghost=('g1', 'g2'), cumulative=True)}

    # ---- callee contracts as seen from the scan
    def call_models(self, mode):
        def gmd(with_n):
            def m(eng, args, kw, st, pc, node):
                if with_n:
                    tau, train, N, start, a0, a1 = args
                else:
                    tau, train, start, a0, a1 = args
                    N = train.n
                c = eng.ctx
                which = 2 if train.buf == c.s2.buf else 1
                T = st.acc(train)
                tau = eng.need_finite(tau, pc, 'get_min_dist.arg', node)
                pre = band(cmp('>=', start, -1), bor(cmp('<', start, N), cmp('<=', start, 0)), cmp('==', N, train.n),
                           bor(cmp('<=', start, 0), T[toI(start)] <= tau),
                           cmp('==', a0, c.aux[which][0]), cmp('==', a1, c.aux[which][1]),
                           # the rest of GetMinDist's precondition: auxiliary spikes enclose the train
                           cmp('<=', a0, a1), forall(0, N, lambda k: z3.And(toR(a0) <= T[k], T[k] <= toR(a1))))
                eng.oblige("call.get_min_dist.pre@%d" % node.lineno, pc, pre, kind='call')
                return MD[which](toR(tau))
            return m

        def dat(eng, args, kw, st, pc, node):
            isi1, isi2, s1, s2, M, RI = args
            if not isinstance(RI, bool):
                RI = bool(RI)
            # DistAtT's precondition (the domain on which its value equation is proved)
            nn = lambda v: cmp('>=', split(v)[0], 0)
            eng.oblige("call.dist_at_t.pre@%d" % node.lineno, pc, band(nn(isi1), nn(isi2), nn(s1), nn(s2), nn(M)), kind='call')
            return D(isi1, isi2, s1, s2, M, RI)
        if self.pyx:
            return {'get_min_dist_cython': gmd(True), 'dist_at_t': dat}
        return {'get_min_dist': gmd(False), 'dist_at_t': dat}

    def setup(self, mode, size, values=None):
        if mode != 'P':
            raise NotImplementedError("use SpikeProfile for the bounded mode")
        st = State()
        N1, N2 = z3.Int('N1'), z3.Int('N2')
        t0, t1, M = in_real('t_start'), in_real('t_end'), in_real('MRTS')
        a, b = self.names
        s1 = in_array(st, a, N1, mode)
        s2 = in_array(st, b, N2, mode)
        st.vars.update({a: s1, b: s2, 't_start': t0, 't_end': t1, 'MRTS': M, 'RI': self.RI})
        S1, S2 = st.acc(s1), st.acc(s2)
        pre = [t0 < t1, M >= 0, spec.valid_train(S1, t0, t1), spec.valid_train(S2, t0, t1)]

        def auxs(S, N):
            lo = z3.If(N > 1, rmin(t0, S[0] - (S[1] - S[0])), t0)
            hi = z3.If(N > 1, rmax(t1, S[N - 1] + (S[N - 1] - S[N - 2])), t1)
            return lo, hi
        aux = {1: auxs(S1, N1), 2: auxs(S2, N2)}
        # revealed part of the definition of the opaque nearest-spike distances
        tau, m = z3.Real('tau!q'), z3.Int('m!q')
        ab = lambda x, y: z3.If(x >= y, x - y, y - x)
        for which, S, N in ((1, S1, N1), (2, S2, N2)):
            pre.append(z3.ForAll([tau], MD[which](tau) >= 0))
            pre.append(z3.ForAll([tau, m], z3.Implies(z3.And(0 <= m, m < N), MD[which](tau) <= ab(tau, S[m]))))
        from ..sym import uf_axioms
        pre += uf_axioms()
        ctx = Ctx(mode=mode, N1=N1, N2=N2, t0=t0, t1=t1, M=M, RI=self.RI, S1=S1, S2=S2, s1=s1, s2=s2, aux=aux, inputs={}, argorder=[])
        ctx.DS = z3.Function('SPIKE_of_segment', I, I, R, R)     # DS(a, b, x): C02 value at time x on the segment with cursors a, b
        ctx.defs = [(ctx.DS, lambda a, b, x: self.Dspec_def(ctx, a, b, x))]
        return st, pre, ctx

    # ---- spec quantities of one train at cursor g  (g = -1: before the first spike, g = N-1: after the last)
    def TP(self, c, w, g):
        S = c.S1 if w == 1 else c.S2
        return z3.If(g >= 0, S[g], c.aux[w][0])

    def TF(self, c, w, g):
        S, N = (c.S1, c.N1) if w == 1 else (c.S2, c.N2)
        return z3.If(g < N - 1, S[g + 1], c.aux[w][1])

    def MDP(self, c, w, g):
        S = c.S1 if w == 1 else c.S2
        o = 2 if w == 1 else 1
        return z3.If(g >= 0, MD[o](S[g]), MD[o](S[0]))

    def MDF(self, c, w, g):
        S, N = (c.S1, c.N1) if w == 1 else (c.S2, c.N2)
        o = 2 if w == 1 else 1
        return z3.If(g < N - 1, MD[o](S[g + 1]), self.MDP(c, w, g))

    def NU(self, c, w, g):
        return spec.nu(c.S1 if w == 1 else c.S2, g, c.t0, c.t1)

    def contrib(self, c, w, g, x):
        """linear interpolation of the two nearest-spike distances of train w at time x (constant outside the spikes)"""
        N = c.N1 if w == 1 else c.N2
        num = arith('+', arith('*', self.MDP(c, w, g), self.TF(c, w, g) - x), arith('*', self.MDF(c, w, g), x - self.TP(c, w, g)))
        return z3.If(z3.Or(g == -1, g == N - 1), self.MDP(c, w, g), split(arith('/', num, self.NU(c, w, g)))[0])

    def Dspec(self, c, ga, gb, x):
        """folded: the named spec function DS (its definition, Dspec_def, is unfolded for ground applications only)"""
        return c.DS(toI(ga), toI(gb), toR(x))

    def Dspec_def(self, c, ga, gb, x):
        return split(D(self.NU(c, 1, ga), self.NU(c, 2, gb), self.contrib(c, 1, ga, x), self.contrib(c, 2, gb, x), c.M, c.RI))[0]

    # ---- ghosts: cursor of each train on segment k
    def ghost_init(self, st, c):
        st.vars['g1'] = z3.Store(z3.Const('g1_0', IARR), 0, toI(st.vars['index1']))
        st.vars['g2'] = z3.Store(z3.Const('g2_0', IARR), 0, toI(st.vars['index2']))

    def ghost_step(self, st, c):
        ix = st.vars['index']
        st.vars['g1'] = z3.Store(st.vars['g1'], ix - 1, toI(st.vars['index1']))
        st.vars['g2'] = z3.Store(st.vars['g2'], ix - 1, toI(st.vars['index2']))

    # ---- invariant
    def inv_range(self, st, c):
        i1, i2, ix = st.vars['index1'], st.vars['index2'], st.vars['index']
        L = c.N1 + c.N2 + 2
        ta1, ta2 = st.acc('t_aux1'), st.acc('t_aux2')
        return z3.And(-1 <= i1, i1 <= c.N1 - 1, -1 <= i2, i2 <= c.N2 - 1, 1 <= ix, ix <= i1 + i2 + 3,
                      toI(st.vars['spike_events'].n) == L, toI(st.vars['y_starts'].n) == L - 1, toI(st.vars['y_ends'].n) == L - 1,
                      ta1[0] == c.aux[1][0], ta1[1] == c.aux[1][1], ta2[0] == c.aux[2][0], ta2[1] == c.aux[2][1],
                      z3.Implies(i1 == -1, c.S1[0] > c.t0), z3.Implies(i2 == -1, c.S2[0] > c.t0))

    def inv_train(self, st, c, w):
        g = st.vars['index%d' % w]
        v = lambda n: st.vars['%s%d' % (n, w)]
        return z3.And(v('t_p') == self.TP(c, w, g), v('t_f') == self.TF(c, w, g), v('dt_p') == self.MDP(c, w, g),
                      v('dt_f') == self.MDF(c, w, g), v('isi') == self.NU(c, w, g),
                      self.NU(c, w, g) == self.TF(c, w, g) - self.TP(c, w, g), self.NU(c, w, g) >= 0)

    def inv_cur(self, st, c):
        i1, i2, ix = st.vars['index1'], st.vars['index2'], st.vars['index']
        ev = st.acc('spike_events')
        cu = rmax(spec.cur(c.S1, i1, c.t0), spec.cur(c.S2, i2, c.t0))
        return z3.And(ev[ix - 1] == cu, ev[0] == c.t0,
                      z3.Implies(i1 < c.N1 - 1, c.S1[i1 + 1] > cu), z3.Implies(i2 < c.N2 - 1, c.S2[i2 + 1] > cu))

    def inv_incr(self, st, c):
        ix = st.vars['index']
        ev = st.acc('spike_events')
        return forall(0, ix - 1, lambda k: ev[k] < ev[k + 1])

    def inv_glast(self, st, c):
        ix = st.vars['index']
        return z3.And(z3.Select(st.vars['g1'], ix - 1) == st.vars['index1'], z3.Select(st.vars['g2'], ix - 1) == st.vars['index2'])

    def seg(self, st, c, k):
        a, b = z3.Select(st.vars['g1'], k), z3.Select(st.vars['g2'], k)
        return a, b

    def inv_starts(self, st, c):
        ix = st.vars['index']
        ev, ys = st.acc('spike_events'), st.acc('y_starts')

        def f(k):
            a, b = self.seg(st, c, k)
            return z3.And(-1 <= a, a <= c.N1 - 1, -1 <= b, b <= c.N2 - 1,
                          # a start value written for an event AT t_end belongs to no segment (the arrays are trimmed)
                          z3.Implies(ev[k] < c.t1, z3.And(ys[k] == self.Dspec(c, a, b, ev[k]), ys.fin(k))),
                          z3.Implies(a >= 0, c.S1[a] <= ev[k]), z3.Implies(b >= 0, c.S2[b] <= ev[k]),
                          z3.Implies(a == -1, c.S1[0] > ev[k]), z3.Implies(b == -1, c.S2[0] > ev[k]),
                          z3.Implies(k >= 1, z3.Or(z3.And(a >= 0, ev[k] == c.S1[a]), z3.And(b >= 0, ev[k] == c.S2[b]))))
        return forall(0, ix, f)

    def inv_ends(self, st, c):
        ix = st.vars['index']
        ev, ye = st.acc('spike_events'), st.acc('y_ends')

        def f(k):
            a, b = self.seg(st, c, k)
            return z3.And(ye[k] == self.Dspec(c, a, b, ev[k + 1]), ye.fin(k),
                          z3.Implies(a < c.N1 - 1, ev[k + 1] <= c.S1[a + 1]), z3.Implies(b < c.N2 - 1, ev[k + 1] <= c.S2[b + 1]))
        return forall(0, ix - 1, f)

    # ---- postcondition (C02 definition, cover indices as witnesses)
    def posts(self, st, ret, c):
        x, ys, ye = ret
        X, YS, YE = st.acc(x), st.acc(ys), st.acc(ye)
        n = YS.n
        g1, g2 = st.vars['g1'], st.vars['g2']

        def seg(k):
            a, b = z3.Select(g1, k), z3.Select(g2, k)
            return z3.And(-1 <= a, a <= c.N1 - 1, -1 <= b, b <= c.N2 - 1,
                          spec.covers(c.S1, a, X[k], X[k + 1]), spec.covers(c.S2, b, X[k], X[k + 1]),
                          YS[k] == self.Dspec(c, a, b, X[k]), YE[k] == self.Dspec(c, a, b, X[k + 1]),
                          self.NU(c, 1, a) > 0, self.NU(c, 2, b) > 0)
        return [('shape', z3.And(toI(X.n) == toI(n) + 1, toI(YE.n) == toI(n), toI(n) >= 1, X[0] == c.t0, X[n] == c.t1)),
                ('incr', forall(0, n, lambda k: X[k] < X[k + 1])),
                ('vals', forall(0, n, seg)),
                ('member', forall(1, n, lambda k: z3.Or(z3.And(z3.Select(g1, k) >= 0, X[k] == c.S1[z3.Select(g1, k)]),
                                                        z3.And(z3.Select(g2, k) >= 0, X[k] == c.S2[z3.Select(g2, k)])))),
                ('finite', forall(0, n, lambda k: z3.And(YS.fin(k), YE.fin(k))))]
