"""Inductive (unbounded) contracts of the compiled single-pass routines coincidence_value_cython (cython_distances.pyx),
spike_train_order_cython and spike_directionality_cython (cython_directionality.pyx)  (C05 / C12): the returned sum is
the sum over the events of THE profile in adjacent form (the form proved for the profile scans, sync_p.py), the
multiplicity is the number of spikes.  The routine builds no profile: events (ghost X, cursors ei / ej) and the partial
sums PS are ghost state, PS[k] = PS[k-1] + value(k) pointwise.  A coincident pair is counted when its later spike is
consumed (+2: one for that event, one for the earlier one); that the earlier spike IS the preceding event, and that no
event is counted twice, are facts about the coincidence window proved as the first clauses of the invariant."""
import z3
from ..sym import *  # noqa
from ..engine import LoopSpec
from ..harness import Contract, Ctx, in_array, in_real
from .. import spec
from .sync import tau_spec, limit_of, model_get_tau


class SinglePassValueP(Contract):
    uf_arith = True           # skolemisation / case split of range goals only: no symbolic products here
    split_cases = True

    def __init__(self, rel, func, kind):
        self.rel, self.func, self.kind = rel, func, kind            # kind: 'sync' | 'order' | 'dir'
        self.acc = {'sync': 'coinc', 'order': 'd', 'dir': 'd'}[kind]
        self.loops = {1: LoopSpec(inv=[('lemma_nonadjacent', self.inv_l1), ('lemma_shared', self.inv_l3), ('lemma_one_to_one', self.inv_l2),
                                       ('range', self.inv_range), ('cursor', self.inv_cursor), ('events', self.inv_events),
                                       ('incr', self.inv_incr), ('sums0', self.inv_sums0), ('sums', self.inv_sums), ('acc', self.inv_acc)],
                                  init=self.ghost_init, step=self.ghost_step, ghost=('ei', 'ej', 'X', 'PS', 'gn'), cumulative=True)}

    def call_models(self, mode):
        return {'get_tau': model_get_tau}

    def setup(self, mode, size, values=None):
        if mode != 'P':
            raise NotImplementedError("bounded stand-in: the *val_pyx.B groups")
        st = State()
        N1, N2 = z3.Int('N1'), z3.Int('N2')
        t0, t1, M, mt = in_real('t_start'), in_real('t_end'), in_real('MRTS'), in_real('max_tau')
        s1 = in_array(st, 'spikes1', N1, mode)
        s2 = in_array(st, 'spikes2', N2, mode)
        st.vars.update(spikes1=s1, spikes2=s2, t_start=t0, t_end=t1, MRTS=M, max_tau=mt)
        S1, S2 = st.acc(s1), st.acc(s2)
        pre = [t0 < t1, M >= 0, mt >= 0, spec.valid_train(S1, t0, t1, nonempty=False), spec.valid_train(S2, t0, t1, nonempty=False)]
        ctx = Ctx(mode=mode, N1=N1, N2=N2, t0=t0, t1=t1, M=M, mt=mt, S1=S1, S2=S2, lim=limit_of(mt, t0, t1), inputs={}, argorder=[])
        # named spec functions (unfolded for ground applications only, pv/ufarith.py): the two coincidence predicates and
        # the value of an event as a function of the cursors before / at / after it
        ctx.CO12 = z3.Function('coincident_train1_spike_first', I, I, B)
        ctx.CO21 = z3.Function('coincident_train2_spike_first', I, I, B)
        ctx.VF = z3.Function('event_value', I, I, I, I, I, I, R)
        ctx.VQ = z3.Function('event_value_without_next', I, I, I, I, R)
        ctx.defs = [(ctx.CO12, lambda a, b: S2[b] - S1[a] < tau_spec(S1, S2, a, b, ctx.lim, M)),
                    (ctx.CO21, lambda a, b: S1[a] - S2[b] < tau_spec(S1, S2, a, b, ctx.lim, M)),
                    (ctx.VF, lambda a, b, pa, pb, na, nb: self.value_def(ctx, a, b, pa, pb, na, nb)),
                    (ctx.VQ, lambda a, b, pa, pb: self.value_def(ctx, a, b, pa, pb, None, None))]
        return st, pre, ctx

    # ---- window facts
    def co12(self, c, a, b):
        """train-1 spike a EARLIER than train-2 spike b and closer than their window"""
        return c.CO12(toI(a), toI(b))

    def co21(self, c, a, b):
        """train-2 spike b earlier than train-1 spike a and closer than their window"""
        return c.CO21(toI(a), toI(b))

    def value_def(self, c, a, b, pa, pb, na, nb):
        adv1, adv2 = a == pa + 1, b == pb + 1
        m1 = z3.And(adv1, z3.Not(adv2), b >= 0, self.co21(c, a, b))
        m2 = z3.And(adv2, z3.Not(adv1), a >= 0, self.co12(c, a, b))
        if na is None:
            n1 = n2 = z3.BoolVal(False)
        else:
            nadv1, nadv2 = na == a + 1, nb == b + 1
            n1 = z3.And(adv1, z3.Not(adv2), nadv2, z3.Not(nadv1), self.co12(c, a, nb))
            n2 = z3.And(adv2, z3.Not(adv1), nadv1, z3.Not(nadv2), self.co21(c, na, b))
        return self.val(z3.And(adv1, adv2), m1, m2, n1, n2)

    def inv_l1(self, st, c):
        """a spike that lies before the other train's PREVIOUS spike is not coincident with this one"""
        a, b = fresh('la', I), fresh('lb', I)
        rng = z3.And(0 <= a, a < c.N1, 0 <= b, b < c.N2)
        return z3.ForAll([a, b], z3.Implies(rng, z3.And(
            z3.Implies(z3.And(a >= 1, c.S2[b] < c.S1[a - 1]), z3.Not(self.co21(c, a, b))),
            z3.Implies(z3.And(b >= 1, c.S1[a] < c.S2[b - 1]), z3.Not(self.co12(c, a, b))))))

    def inv_l3(self, st, c):
        """a spike is not coincident with a spike of the other train that is simultaneous with its own predecessor"""
        a, b = fresh('la', I), fresh('lb', I)
        rng = z3.And(0 <= a, a < c.N1, 0 <= b, b < c.N2)
        return z3.ForAll([a, b], z3.Implies(rng, z3.And(
            z3.Implies(z3.And(a >= 1, c.S2[b] == c.S1[a - 1]), z3.Not(self.co21(c, a, b))),
            z3.Implies(z3.And(b >= 1, c.S1[a] == c.S2[b - 1]), z3.Not(self.co12(c, a, b))))))

    def inv_l2(self, st, c):
        """one-to-one: a spike between two spikes of the other train is not coincident with both"""
        a, b = fresh('la', I), fresh('lb', I)
        rng = z3.And(0 <= a, a < c.N1, 0 <= b, b < c.N2)
        return z3.ForAll([a, b], z3.Implies(rng, z3.And(
            z3.Implies(z3.And(a + 1 < c.N1, c.S1[a] < c.S2[b], c.S2[b] < c.S1[a + 1]), z3.Not(z3.And(self.co12(c, a, b), self.co21(c, a + 1, b)))),
            z3.Implies(z3.And(b + 1 < c.N2, c.S2[b] < c.S1[a], c.S1[a] < c.S2[b + 1]), z3.Not(z3.And(self.co21(c, a, b), self.co12(c, a, b + 1)))))))

    # ---- events (ghost)
    def ghost_init(self, st, c):
        st.vars['ei'] = z3.Store(z3.Const('ei_0', IARR), 0, -1)
        st.vars['ej'] = z3.Store(z3.Const('ej_0', IARR), 0, -1)
        st.vars['X'] = z3.Const('X_0', ARR)
        st.vars['PS'] = z3.Store(z3.Const('PS_0', ARR), 0, z3.RealVal(0))
        st.vars['gn'] = z3.IntVal(0)

    def parts(self, ei, ej, k):
        a, b, pa, pb = z3.Select(ei, k), z3.Select(ej, k), z3.Select(ei, k - 1), z3.Select(ej, k - 1)
        return a, b, pa, pb, a == pa + 1, b == pb + 1

    def prev_part(self, c, ei, ej, k):
        a, b, pa, pb, adv1, adv2 = self.parts(ei, ej, k)
        m1 = z3.And(adv1, z3.Not(adv2), b >= 0, self.co21(c, a, b))      # train-1 event, previous train-2 spike coincident
        m2 = z3.And(adv2, z3.Not(adv1), a >= 0, self.co12(c, a, b))      # train-2 event, previous train-1 spike coincident
        return m1, m2

    def next_part(self, c, ei, ej, k):
        a, b, pa, pb, adv1, adv2 = self.parts(ei, ej, k)
        a2, b2, _, _, nadv1, nadv2 = self.parts(ei, ej, k + 1)
        n1 = z3.And(adv1, z3.Not(adv2), nadv2, z3.Not(nadv1), self.co12(c, a, b2))    # train-1 event, then coincident train-2 event
        n2 = z3.And(adv2, z3.Not(adv1), nadv1, z3.Not(nadv2), self.co21(c, a2, b))    # train-2 event, then coincident train-1 event
        return n1, n2

    def val(self, both, m1, m2, n1, n2):
        one, zero = z3.RealVal(1), z3.RealVal(0)
        if self.kind == 'sync':
            return z3.If(both, z3.RealVal(2), z3.If(z3.Or(m1, m2, n1, n2), one, zero))
        if self.kind == 'order':
            return z3.If(both, zero, z3.If(z3.Or(m2, n1), one, z3.If(z3.Or(m1, n2), -one, zero)))
        # directionality: the value of the train-1 spike of the event (+1 leads, -1 follows), 0 for train-2 / shared events
        return z3.If(both, zero, z3.If(n1, one, z3.If(m1, -one, zero)))

    def value(self, c, ei, ej, k, with_next):
        a, b, pa, pb = z3.Select(ei, k), z3.Select(ej, k), z3.Select(ei, k - 1), z3.Select(ej, k - 1)
        full = c.VF(a, b, pa, pb, z3.Select(ei, k + 1), z3.Select(ej, k + 1))
        part = c.VQ(a, b, pa, pb)
        if with_next is True:
            return full
        if with_next is False:
            return part
        return z3.If(with_next, full, part)

    def ghost_step(self, st, c):
        i, j, gn = toI(st.vars['i']), toI(st.vars['j']), st.vars['gn']
        n1 = gn + 1
        adv1 = i == z3.Select(st.vars['ei'], gn) + 1
        st.vars['ei'] = z3.Store(st.vars['ei'], n1, i)
        st.vars['ej'] = z3.Store(st.vars['ej'], n1, j)
        st.vars['X'] = z3.Store(st.vars['X'], n1, z3.If(adv1, c.S1[i], c.S2[j]))
        # the value of the previous event is final now (its 'next' part is decided by the new event)
        vf = self.value(c, st.vars['ei'], st.vars['ej'], gn, True)
        # (a plain Store - for the first event it rewrites PS[0] = 0 - so that array terms stay matchable)
        st.vars['PS'] = z3.Store(st.vars['PS'], z3.If(gn >= 1, gn, 0), z3.If(gn >= 1, z3.Select(st.vars['PS'], gn - 1) + vf, z3.RealVal(0)))
        st.vars['gn'] = n1

    def ev_ok(self, c, ei, ej, X, k):
        a, b, pa, pb, adv1, adv2 = self.parts(ei, ej, k)
        S1, S2 = c.S1, c.S2
        x = z3.Select(X, k)
        return z3.And(-1 <= pa, a <= c.N1 - 1, -1 <= pb, b <= c.N2 - 1, z3.Or(a == pa, adv1), z3.Or(b == pb, adv2), z3.Or(adv1, adv2),
                      z3.Implies(adv1, x == S1[a]), z3.Implies(adv2, x == S2[b]),
                      z3.Implies(a >= 0, S1[a] <= x), z3.Implies(b >= 0, S2[b] <= x),
                      z3.Implies(z3.And(adv1, z3.Not(adv2), b >= 0), S2[b] < x),
                      z3.Implies(z3.And(adv2, z3.Not(adv1), a >= 0), S1[a] < x),
                      z3.Implies(a < c.N1 - 1, S1[a + 1] > x), z3.Implies(b < c.N2 - 1, S2[b + 1] > x))

    # ---- invariant
    def inv_range(self, st, c):
        i, j, gn = st.vars['i'], st.vars['j'], st.vars['gn']
        base = z3.And(-1 <= i, i <= c.N1 - 1, -1 <= j, j <= c.N2 - 1, 0 <= gn, gn <= i + j + 2, i + j + 2 <= 2 * gn,
                      st.vars['true_max'] == c.lim, toI(st.vars['N1']) == c.N1, toI(st.vars['N2']) == c.N2)
        if self.kind != 'dir':
            base = z3.And(base, split(st.vars['mp'])[0] == toR(toI(i) + toI(j) + 2))
        return base

    def inv_cursor(self, st, c):
        gn = st.vars['gn']
        return z3.And(z3.Select(st.vars['ei'], gn) == st.vars['i'], z3.Select(st.vars['ej'], gn) == st.vars['j'],
                      z3.Select(st.vars['ei'], 0) == -1, z3.Select(st.vars['ej'], 0) == -1)

    def inv_events(self, st, c):
        gn = st.vars['gn']
        return forall(1, gn + 1, lambda k: self.ev_ok(c, st.vars['ei'], st.vars['ej'], st.vars['X'], k))

    def inv_incr(self, st, c):
        gn, X = st.vars['gn'], st.vars['X']
        return forall(1, gn, lambda k: z3.Select(X, k) < z3.Select(X, k + 1))

    def inv_sums0(self, st, c):
        return z3.Select(st.vars['PS'], 0) == 0

    def inv_sums(self, st, c):
        gn, PS = st.vars['gn'], st.vars['PS']
        ei, ej = st.vars['ei'], st.vars['ej']
        return forall(1, gn, lambda k: z3.Select(PS, k) == z3.Select(PS, k - 1) + self.value(c, ei, ej, k, True))

    def inv_acc(self, st, c):
        gn, PS = st.vars['gn'], st.vars['PS']
        acc = toR(split(st.vars[self.acc])[0])
        q = self.value(c, st.vars['ei'], st.vars['ej'], gn, False)       # the last event without its (still open) 'next' part
        return z3.If(gn >= 1, acc == z3.Select(PS, gn - 1) + q, acc == 0)

    # ---- postcondition
    def posts(self, st, ret, c):
        gn, ei, ej, X = st.vars['gn'], st.vars['ei'], st.vars['ej'], st.vars['X']
        q = self.value(c, ei, ej, gn, False)
        PS = z3.Store(st.vars['PS'], z3.If(gn >= 1, gn, 0), z3.If(gn >= 1, z3.Select(st.vars['PS'], gn - 1) + q, z3.RealVal(0)))
        if self.kind == 'dir':
            r, mp = split(ret)[0], None
        else:
            r, mp = split(ret[0])[0], split(ret[1])[0]
        out = [('all_spikes_consumed', z3.And(z3.Select(ei, gn) == c.N1 - 1, z3.Select(ej, gn) == c.N2 - 1, z3.Select(ei, 0) == -1, z3.Select(ej, 0) == -1)),
               ('events', forall(1, gn + 1, lambda k: self.ev_ok(c, ei, ej, X, k))),
               ('incr', forall(1, gn, lambda k: z3.Select(X, k) < z3.Select(X, k + 1))),
               ('partial_sums_start', z3.Select(PS, 0) == 0),
               ('partial_sums', forall(1, gn + 1, lambda k: z3.Select(PS, k) == z3.Select(PS, k - 1) + self.value(c, ei, ej, k, toI(k) < gn))),
               ('sum', toR(r) == z3.Select(PS, gn))]
        if mp is not None:
            out.append(('multiplicity', toR(mp) == toR(c.N1 + c.N2)))
        return out
