"""Inductive / unbounded (P mode) contracts of integral() of the three profile classes for ANY number of pieces / events
(C10, C11).  The methods are vectorised: np.sum over a slice of symbolic length is the named finite sum SIGMA (sym.py,
assumed contract of np.sum); the specification is written with the same name: integral over [a, b] = partial first
piece + SIGMA over the whole pieces inside + partial last piece, the positions s, e of the interval ends being
characterised by the breakpoints (x[s-1] <= a < x[s], x[e] < b <= x[e+1]).  The bridge to the literal Riemann-sum form
(sum over ALL pieces of value * overlap) is a statement about finite sums (terms with zero overlap vanish) that is not
proved here; the bounded groups check that literal form."""
import z3
from ..sym import *  # noqa
from ..harness import Contract, Ctx, in_array, in_real
from .. import spec
from ..sym import sigma


class IntegralP(Contract):
    func = 'integral'
    uf_arith = True            # products of symbolic reals abstracted (same summand shape on both sides), goals skolemised

    def __init__(self, kind, variant):
        self.kind, self.variant = kind, variant
        self.rel, self.cls, self.fields = {
            'pwc': ('pyspike/PieceWiseConstFunc.py', 'PieceWiseConstFunc', ('x', 'y')),
            'pwl': ('pyspike/PieceWiseLinFunc.py', 'PieceWiseLinFunc', ('x', 'y1', 'y2')),
            'disc': ('pyspike/DiscreteFunc.py', 'DiscreteFunc', ('x', 'y', 'mp'))}[kind]

    def setup(self, mode, size, values=None):
        if mode != 'P':
            raise NotImplementedError("bounded stand-in: the *_integral.B groups")
        st = State()
        n = z3.Int('n')                         # pieces (pwc / pwl) or events (disc)
        f = {'__local__': False}
        if self.kind == 'disc':
            for nm in self.fields:
                f[nm] = in_array(st, nm, n + 2, mode)
        else:
            f['x'] = in_array(st, 'x', n + 1, mode)
            for nm in self.fields[1:]:
                f[nm] = in_array(st, nm, n, mode)
        rec = st.new_rec(self.cls, f)
        st.vars['self'] = rec
        A = {k: st.acc(v) for k, v in f.items() if k != '__local__'}
        X = A['x']
        m = toI(X.n)
        a, b = in_real('a'), in_real('b')
        if self.kind == 'disc':
            # edge entries, events strictly increasing (all-pairs form) inside the closed interval
            pre = [n >= 0, X[0] < X[m - 1], forall2(1, m - 1, lambda p, q: X[p] < X[q], name='s'),
                   z3.Implies(m > 2, z3.And(X[0] <= X[1], X[m - 2] <= X[m - 1]))]
        else:
            pre = [n >= 1, spec.sorted_strict(X)]
        if self.variant == 'none':
            st.vars['interval'] = None
        else:
            st.vars['interval'] = (a, b)
            pre += [a < b, X[0] <= a, b <= X[m - 1]]
        from ..sym import uf_axioms
        pre += uf_axioms()
        return st, pre, Ctx(mode=mode, n=n, A=A, a=a, b=b, m=m, inputs={}, argorder=[])

    # value of the piece k of a piecewise-linear function at time t (straight line through the two one-sided limits)
    @staticmethod
    def line(A, k, t):
        X = A['x']
        return arith('+', A['y1'][k], arith('/', arith('*', A['y2'][k] - A['y1'][k], t - X[k]), X[k + 1] - X[k]))

    def posts(self, st, ret, c):
        A, X, m = c.A, c.A['x'], c.m
        half = Fraction(1, 2)
        t_ = lambda v: split(v)[0]
        if self.kind == 'disc':
            v, mu = t_(ret[0]), t_(ret[1])
            if self.variant == 'none':
                return [('value', v == sigma(lambda k: A['y'][k + 1], m - 2)), ('multiplicity', mu == sigma(lambda k: A['mp'][k + 1], m - 2))]
            # events strictly inside (a, b): positions [s, e) with x[s-1] <= a < x[s] and x[e-1] < b <= x[e]
            s, e = toI(st.vars['start_ind']), toI(st.vars['end_ind'])          # witnesses: the positions the method found
            loc = z3.And(1 <= s, s <= m - 1, 1 <= e, e <= m - 1, s <= e, X[s - 1] <= c.a, c.a < X[s], X[e - 1] < c.b, c.b <= X[e])
            return [('located', loc), ('value', v == sigma(lambda k: A['y'][s + k], e - s)), ('multiplicity', mu == sigma(lambda k: A['mp'][s + k], e - s))]
        r = t_(ret)
        if self.kind == 'pwc':
            whole = lambda lo, cnt: sigma(lambda k: arith('*', X[lo + 1 + k] - X[lo + k], A['y'][lo + k]), cnt)
            if self.variant == 'none':
                return [('value', r == whole(0, c.n)), ('finite', split(ret)[1])]
            s, e = toI(st.vars['start_ind']), toI(st.vars['end_ind'])          # witnesses: the positions the method found
            loc = z3.And(1 <= s, s <= c.n, 0 <= e, e <= c.n - 1, X[s - 1] <= c.a, c.a < X[s], X[e] < c.b, c.b <= X[e + 1])
            same = z3.And(s == e + 1, r == t_(arith('*', A['y'][e], c.b - c.a)))
            span = z3.And(s <= e, r == whole(s, e - s) + t_(arith('*', X[s] - c.a, A['y'][s - 1])) + t_(arith('*', c.b - X[e], A['y'][e])))
            # the code computes the same-piece case as (x[s]-x[e])*y[e] - ((a-x[e])+(x[s]-b))*y[e]: equal to y[e]*(b-a) by
            # distributivity, which the abstraction of products does not know - stated in the code's form as well
            same2 = z3.And(s == e + 1, r == t_(arith('*', X[s] - X[e], A['y'][e])) - t_(arith('*', (c.a - X[e]) + (X[s] - c.b), A['y'][e])))
            return [('located', loc), ('value', z3.Or(same, same2, span)), ('finite', split(ret)[1])]
        # pwl
        # trapezoid of a whole piece, in the association the method uses: ((dx * 1/2) * (y1 + y2))
        whole = lambda lo, cnt: sigma(lambda k: arith('*', arith('*', X[lo + 1 + k] - X[lo + k], half), A['y1'][lo + k] + A['y2'][lo + k]), cnt)
        if self.variant == 'none':
            return [('value', r == whole(0, c.n)), ('finite', split(ret)[1])]
        s, e = toI(st.vars['start_ind']), toI(st.vars['end_ind'])
        loc = z3.And(1 <= s, s <= c.n, 0 <= e, e <= c.n - 1, X[s - 1] <= c.a, c.a < X[s], X[e] < c.b, c.b <= X[e + 1])
        la = lambda k, t: t_(self.line(A, k, t))
        same = z3.And(s == e + 1, r == t_(arith('*', arith('*', la(e, c.a) + la(e, c.b), half), c.b - c.a)))
        first = t_(arith('*', arith('*', X[s] - c.a, half), A['y2'][s - 1] + la(s - 1, c.a)))
        last = t_(arith('*', arith('*', c.b - X[e], half), A['y1'][e] + la(e, c.b)))
        span = z3.And(s <= e, r == whole(s, e - s) + first + last)
        return [('located', loc), ('value', z3.Or(same, span)), ('finite', split(ret)[1])]


class EvaluateP(Contract):
    """__call__(t) for a single time t and ANY number of pieces (C10): the value of the piece containing t, the mean of
    the two one-sided limits at an interior breakpoint, the one-sided limit at the two end points.  Loop-free: the
    method locates t with np.searchsorted and tests `sum(self.x == t) > 0` (both assumed library contracts)."""
    func = '__call__'
    uf_arith = True

    def __init__(self, kind):
        self.kind = kind
        self.rel, self.cls, self.fields = {
            'pwc': ('pyspike/PieceWiseConstFunc.py', 'PieceWiseConstFunc', ('x', 'y')),
            'pwl': ('pyspike/PieceWiseLinFunc.py', 'PieceWiseLinFunc', ('x', 'y1', 'y2'))}[kind]

    def setup(self, mode, size, values=None):
        if mode != 'P':
            raise NotImplementedError("bounded stand-in: the *_call.B groups")
        st = State()
        n = z3.Int('n')
        f = {'__local__': False, 'x': in_array(st, 'x', n + 1, mode)}
        for nm in self.fields[1:]:
            f[nm] = in_array(st, nm, n, mode)
        st.vars['self'] = st.new_rec(self.cls, f)
        A = {k: st.acc(v) for k, v in f.items() if k != '__local__'}
        X = A['x']
        t = in_real('t')
        st.vars['t'] = t
        from ..sym import uf_axioms
        pre = [n >= 1, spec.sorted_strict(X), X[0] <= t, t <= X[n]] + uf_axioms()
        return st, pre, Ctx(mode=mode, n=n, A=A, t=t, inputs={}, argorder=[])

    def posts(self, st, ret, c):
        A, X, n, t = c.A, c.A['x'], c.n, c.t
        v, f = split(ret)
        half = Fraction(1, 2)
        if self.kind == 'pwc':
            left = right = inside = lambda k: A['y'][k]
        else:
            left = lambda k: A['y1'][k]
            right = lambda k: A['y2'][k]
            inside = lambda k: split(IntegralP.line(A, k, t))[0]
        return [('finite', f),
                ('start', z3.Implies(t == X[0], v == left(0))),
                ('end', z3.Implies(t == X[n], v == right(n - 1))),
                ('breakpoint', forall(1, n, lambda k: z3.Implies(t == X[k], v == split(arith('*', half, right(k - 1) + left(k)))[0]))),
                ('piece', forall(0, n, lambda k: z3.Implies(z3.And(X[k] < t, t < X[k + 1]), v == inside(k))))]


class AvrgP(Contract):
    """avrg(interval) for ANY number of pieces / events, against the CONTRACT of integral (the callee is not entered: its
    result is the opaque value INT(lo, hi) - for DiscreteFunc the pair (VAL, MUL) - whose meaning is what the integral
    contracts establish): average = integral / length, several intervals: sum of integrals / sum of lengths;
    DiscreteFunc: value / multiplicity, or 1 when no multiplicity is inside."""
    func = 'avrg'
    uf_arith = True

    def __init__(self, kind, variant):
        self.kind, self.variant = kind, variant
        self.rel, self.cls, self.fields = {
            'pwc': ('pyspike/PieceWiseConstFunc.py', 'PieceWiseConstFunc', ('x', 'y')),
            'pwl': ('pyspike/PieceWiseLinFunc.py', 'PieceWiseLinFunc', ('x', 'y1', 'y2')),
            'disc': ('pyspike/DiscreteFunc.py', 'DiscreteFunc', ('x', 'y', 'mp'))}[kind]
        self.INT = z3.Function('integral_over', R, R, R)
        self.MULT = z3.Function('multiplicity_over', R, R, R)

    def call_models(self, mode):
        def integral_model(eng, args, kw, st, pc, node):
            rec = args[0]
            iv = args[1] if len(args) > 1 else kw.get('interval')
            X = st.acc(st.heap[rec.id]['x'])
            m = toI(X.n)
            if iv is not None and isinstance(iv, (list, tuple)) and len(iv) > 0 and isinstance(iv[0], (list, tuple)):
                # a sequence of intervals handed through (DiscreteFunc.avrg): integral's contract adds the parts up
                vs, ms = z3.RealVal(0), z3.RealVal(0)
                for (lo, hi) in iv:
                    eng.oblige("call.integral.pre@%d" % node.lineno, pc, z3.And(toR(lo) < toR(hi), X[0] <= toR(lo), toR(hi) <= X[m - 1]), kind='call')
                    vs, ms = vs + self.INT(toR(lo), toR(hi)), ms + self.MULT(toR(lo), toR(hi))
                    pc.assume(self.MULT(toR(lo), toR(hi)) >= 0)
                return (vs, ms) if self.kind == 'disc' else vs
            if iv is None:
                lo, hi = X[0], X[m - 1]
            else:
                lo, hi = iv
                eng.oblige("call.integral.pre@%d" % node.lineno, pc, z3.And(toR(lo) < toR(hi), X[0] <= toR(lo), toR(hi) <= X[m - 1]), kind='call')
            if self.kind == 'disc':
                mu = self.MULT(toR(lo), toR(hi))
                pc.assume(mu >= 0)                       # integral's contract: a sum of multiplicities (>= 0 for profiles)
                return (self.INT(toR(lo), toR(hi)), mu)
            return self.INT(toR(lo), toR(hi))
        return {self.cls + '.integral': integral_model}

    def setup(self, mode, size, values=None):
        if mode != 'P':
            raise NotImplementedError("bounded stand-in: the *_avrg.B groups")
        st = State()
        n = z3.Int('n')
        f = {'__local__': False}
        if self.kind == 'disc':
            for nm in self.fields:
                f[nm] = in_array(st, nm, n + 2, mode)
        else:
            f['x'] = in_array(st, 'x', n + 1, mode)
            for nm in self.fields[1:]:
                f[nm] = in_array(st, nm, n, mode)
        st.vars['self'] = st.new_rec(self.cls, f)
        X = st.acc(f['x'])
        m = toI(X.n)
        a, b, a2, b2 = in_real('a'), in_real('b'), in_real('a2'), in_real('b2')
        pre = [n >= (0 if self.kind == 'disc' else 1), X[0] < X[m - 1]]
        ok = lambda lo, hi: [lo < hi, X[0] <= lo, hi <= X[m - 1]]
        if self.variant == 'none':
            st.vars['interval'] = None
        elif self.variant == 'one':
            st.vars['interval'] = (a, b)
            pre += ok(a, b)
        else:
            st.vars['interval'] = [(a, b), (a2, b2)]
            pre += ok(a, b) + ok(a2, b2)
        from ..sym import uf_axioms
        pre += uf_axioms()
        return st, pre, Ctx(mode=mode, n=n, X=X, m=m, a=a, b=b, a2=a2, b2=b2, inputs={}, argorder=[])

    def posts(self, st, ret, c):
        r, f = split(ret)
        X, m = c.X, c.m
        q = lambda num, den: split(arith('/', num, den))[0]
        if self.variant == 'none':
            lo, hi = X[0], X[m - 1]
            num, den, mu = self.INT(lo, hi), hi - lo, self.MULT(lo, hi)
        elif self.variant == 'one':
            num, den, mu = self.INT(c.a, c.b), c.b - c.a, self.MULT(c.a, c.b)
        else:
            num = self.INT(c.a, c.b) + self.INT(c.a2, c.b2)
            den = (c.b - c.a) + (c.b2 - c.a2)
            mu = self.MULT(c.a, c.b) + self.MULT(c.a2, c.b2)
        if self.kind == 'disc':
            return [('value', r == z3.If(mu > 0, q(num, mu), z3.RealVal(1))), ('finite', f)]
        return [('value', r == q(num, den)), ('finite', f)]


class PlottableP(Contract):
    """get_plottable_data() for ANY number of pieces (C10): 2n points, piece k drawn from (x[k], left limit) to
    (x[k+1], right limit).  The method fills the arrays with strided slice stores."""
    func = 'get_plottable_data'
    uf_arith = True
    split_cases = False

    def __init__(self, kind):
        self.kind = kind
        self.rel, self.cls, self.fields = {
            'pwc': ('pyspike/PieceWiseConstFunc.py', 'PieceWiseConstFunc', ('x', 'y')),
            'pwl': ('pyspike/PieceWiseLinFunc.py', 'PieceWiseLinFunc', ('x', 'y1', 'y2'))}[kind]

    def setup(self, mode, size, values=None):
        if mode != 'P':
            raise NotImplementedError("bounded stand-in: the *_plot.B groups")
        st = State()
        n = z3.Int('n')
        f = {'__local__': False, 'x': in_array(st, 'x', n + 1, mode)}
        for nm in self.fields[1:]:
            f[nm] = in_array(st, nm, n, mode)
        st.vars['self'] = st.new_rec(self.cls, f)
        A = {k: st.acc(v) for k, v in f.items() if k != '__local__'}
        return st, [n >= 1, spec.sorted_strict(A['x'])], Ctx(mode=mode, n=n, A=A, inputs={}, argorder=[])

    def posts(self, st, ret, c):
        xp, yp = ret
        XP, YP = st.acc(xp), st.acc(yp)
        A, X, n = c.A, c.A['x'], c.n
        left = (lambda k: A['y'][k]) if self.kind == 'pwc' else (lambda k: A['y1'][k])
        right = (lambda k: A['y'][k]) if self.kind == 'pwc' else (lambda k: A['y2'][k])
        from .add import fresh_result
        return [('shape', z3.And(toI(XP.n) == 2 * n, toI(YP.n) == 2 * n)),
                ('points', forall(0, n, lambda k: z3.And(XP[2 * k] == X[k], XP[2 * k + 1] == X[k + 1], YP[2 * k] == left(k), YP[2 * k + 1] == right(k)))),
                ('fresh_arrays', fresh_result(st, ret))]


class MethodP(Contract):
    """add / mul_scalar / copy of the three classes for ANY number of pieces (C09, C11).
    add: the kernel is not entered (its own contract is proved in the add*.P groups): the method hands the kernel exactly
    (own fields, operand's fields), stores exactly the arrays the kernel returned into the receiving object, and writes
    nothing else (frame obligations: the operand is not modified).  mul_scalar: the value arrays are scaled cell by
    cell, breakpoints (and multiplicities) untouched.  copy: equal contents in new arrays, original untouched."""
    uf_arith = True
    KERNELS = {'pwc': ('add_piece_wise_const_python', 'add_piece_wise_const_cython'),
               'pwl': ('add_piece_wise_lin_python', 'add_piece_wise_lin_cython'),
               'disc': ('add_discrete_function_python', 'add_discrete_function_cython')}

    def __init__(self, kind, method, config='fallback'):
        self.kind, self.func, self.config = kind, method, config
        self.rel, self.cls, self.fields = {
            'pwc': ('pyspike/PieceWiseConstFunc.py', 'PieceWiseConstFunc', ('x', 'y')),
            'pwl': ('pyspike/PieceWiseLinFunc.py', 'PieceWiseLinFunc', ('x', 'y1', 'y2')),
            'disc': ('pyspike/DiscreteFunc.py', 'DiscreteFunc', ('x', 'y', 'mp'))}[kind]

    def make(self, st, name, n, prefix):
        f = {'__local__': False}
        nx = n + 2 if self.kind == 'disc' else n + 1
        f['x'] = in_array(st, prefix + 'x', nx, 'P')
        for nm in self.fields[1:]:
            f[nm] = in_array(st, prefix + nm, nx if self.kind == 'disc' else n, 'P')
        rec = st.new_rec(self.cls, f)
        st.vars[name] = rec
        return rec, f

    def modifies(self, st, ctx):
        return (st.vars['self'].id,) + tuple(v.buf for k, v in st.heap[st.vars['self'].id].items() if isinstance(v, ArrV))

    def call_models(self, mode):
        if self.func != 'add':
            return {}

        def kernel(eng, args, kw, st, pc, node):
            outs = tuple(st.alloc(fresh('k_' + nm, ARR), fresh('kn_' + nm, I), 'kernel-result-' + nm) for nm in self.fields)
            st.vars['__kcalls__'] = list(st.vars.get('__kcalls__', [])) + [(tuple(args), outs)]       # per path
            return outs
        return {nm: kernel for nm in self.KERNELS[self.kind]}

    def setup(self, mode, size, values=None):
        if mode != 'P':
            raise NotImplementedError("bounded stand-in: the *_mul / *_copy / *_add_* .B groups")
        st = State()
        n1, n2 = z3.Int('n1'), z3.Int('n2')
        rec, f1 = self.make(st, 'self', n1, 'a_')
        X1 = st.acc(f1['x'])
        lo = 0 if self.kind == 'disc' else 1
        pre = [n1 >= lo, X1[0] < X1[toI(X1.n) - 1]]
        ctx = Ctx(mode=mode, rec=rec, f1=f1, n1=n1, kernel_calls=[], inputs={}, argorder=[])
        ctx.olddata = {k: st.heap[f1[k].buf].data for k in self.fields}
        if self.func == 'add':
            rec2, f2 = self.make(st, 'f', n2, 'b_')
            X2 = st.acc(f2['x'])
            pre += [n2 >= lo, X1[0] == X2[0], X1[toI(X1.n) - 1] == X2[toI(X2.n) - 1]]
            ctx.rec2, ctx.f2 = rec2, f2
            ctx.olddata2 = {k: st.heap[f2[k].buf].data for k in self.fields}
        if self.func == 'mul_scalar':
            ctx.fac = in_real('fac')
            st.vars['fac'] = ctx.fac
        from ..sym import uf_axioms
        pre += uf_axioms()
        return st, pre, ctx

    def posts(self, st, ret, c):
        me = st.heap[c.rec.id]
        out = []
        same = lambda k, arrv, data, n: z3.Select(st.heap[arrv.buf].data, k) == z3.Select(data, k)
        if self.func == 'mul_scalar':
            scaled = self.fields[1:] if self.kind != 'disc' else ('y',)
            for nm in self.fields:
                old, cur = c.f1[nm], me[nm]
                out.append(('same_array_' + nm, bool(isinstance(cur, ArrV) and cur.buf == old.buf and cur.n is old.n)))
                if nm in scaled:
                    out.append(('scaled_' + nm, forall(0, old.n, lambda k, nm=nm: z3.Select(st.heap[me[nm].buf].data, k) ==
                                                       split(arith('*', z3.Select(c.olddata[nm], k), c.fac))[0])))
                else:
                    out.append(('untouched_' + nm, st.heap[cur.buf].data is c.olddata[nm]))
            return out
        if self.func == 'copy':
            new = st.heap[ret.id]
            for nm in self.fields:
                old = c.f1[nm]
                C = st.acc(new[nm])
                out.append(('equal_' + nm, z3.And(toI(C.n) == toI(old.n), forall(0, old.n, lambda k, C=C, nm=nm: C[k] == z3.Select(c.olddata[nm], k)))))
                out.append(('independent_' + nm, new[nm].buf != old.buf))
                out.append(('original_untouched_' + nm, bool(me[nm].buf == old.buf and st.heap[old.buf].data is c.olddata[nm])))
            return out
        # add
        calls = st.vars.get('__kcalls__', [])
        if not calls:
            # a path that does not go through the kernel (a shortcut) is outside this modular contract: the bounded group
            # of the same method, with the kernel inlined and the sum stated semantically, decides it
            raise KeyError('a kernel call on every returning path of add')
        args, outs = calls[-1]
        want = [c.f1[nm] for nm in self.fields] + [c.f2[nm] for nm in self.fields]
        okargs = len(args) == len(want) and all(isinstance(a, ArrV) and a.buf == w.buf and a.off == 0 and a.n is w.n for a, w in zip(args, want))
        out.append(('kernel_receives_own_and_operand_fields', bool(okargs)))
        for nm, o in zip(self.fields, outs):
            out.append(('stores_kernel_result_' + nm, bool(isinstance(me[nm], ArrV) and me[nm].buf == o.buf)))
            out.append(('operand_unchanged_' + nm, st.heap[c.f2[nm].buf].data is c.olddata2[nm] and st.heap[c.rec2.id][nm].buf == c.f2[nm].buf))
        return out


class DiscPlottableP(Contract):
    """DiscreteFunc.get_plottable_data() without smoothing window, any number of events (C11): the event times and
    value / multiplicity per entry."""
    rel, cls, func = 'pyspike/DiscreteFunc.py', 'DiscreteFunc', 'get_plottable_data'
    uf_arith = True

    def setup(self, mode, size, values=None):
        if mode != 'P':
            raise NotImplementedError("bounded stand-in: disc_plot.B")
        st = State()
        n = z3.Int('n')
        f = {'__local__': False}
        for nm in ('x', 'y', 'mp'):
            f[nm] = in_array(st, nm, n + 2, mode)
        st.vars['self'] = st.new_rec(self.cls, f)
        A = {k: st.acc(v) for k, v in f.items() if k != '__local__'}
        m = toI(A['x'].n)
        k = fresh('kp', I)
        from ..sym import uf_axioms
        pre = [n >= 0, z3.ForAll([k], z3.Implies(z3.And(0 <= k, k < m), A['mp'][k] > 0))] + uf_axioms()
        return st, pre, Ctx(mode=mode, n=n, A=A, m=m, inputs={}, argorder=[])

    def posts(self, st, ret, c):
        xp, yp = ret
        A, m = c.A, c.m
        return [('shape', z3.And(toI(xp.n) == m, toI(yp.n) == m)),
                ('times', forall(0, m, lambda k: split(st.elem(xp, k))[0] == A['x'][k])),
                ('values', forall(0, m, lambda k: z3.And(split(st.elem(yp, k))[0] == split(arith('/', A['y'][k], A['mp'][k]))[0], toB(split(st.elem(yp, k))[1]))))]
