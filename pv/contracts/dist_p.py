"""Inductive (unbounded) contracts of the compiled single-pass distance routines of cython_distances.pyx (C05, C12):
the scalar they return is the average of THE profile of the C01 / C02 definition.  The routine does not build the
profile; the contract supplies it as ghost state (events EV, covering cursors g1 / g2, partial sums PS) and the
postcondition says: the ghost segmentation satisfies the postcondition of the profile contract (events = edges +
spike times, strictly increasing, covering cursors), PS[0] = 0, PS[k+1] = PS[k] + value_k * (EV[k+1] - EV[k]) for every
segment, and the result is PS[n] / (t_end - t_start).  The partial sums are characterised pointwise - no recursive sum
function, hence no induction.  Products / quotients are abstracted as in spike_p.py."""
import z3
from ..sym import *  # noqa
from ..engine import LoopSpec
from ..harness import Contract, Ctx, in_array, in_real
from .. import spec

DIST = 'pyspike/cython/cython_distances.pyx'


class IsiDistanceP(Contract):
    rel = DIST
    func = 'isi_distance_cython'
    uf_arith = True
    split_cases = True

    def __init__(self):
        self.loops = {1: LoopSpec(inv=[('range', self.inv_range), ('nu', self.inv_nu), ('cur', self.inv_cur), ('incr', self.inv_incr),
                                       ('glast', self.inv_glast), ('segs', self.inv_segs), ('right', self.inv_right), ('sum', self.inv_sum)],
                                  init=self.ghost_init, step=self.ghost_step, ghost=('g1', 'g2', 'EV', 'PS'), cumulative=True)}

    def setup(self, mode, size, values=None):
        if mode != 'P':
            raise NotImplementedError("bounded stand-in: isidist_pyx.B")
        st = State()
        N1, N2 = z3.Int('N1'), z3.Int('N2')
        t0, t1, M = in_real('t_start'), in_real('t_end'), in_real('MRTS')
        s1 = in_array(st, 's1', N1, mode)
        s2 = in_array(st, 's2', N2, mode)
        st.vars.update(s1=s1, s2=s2, t_start=t0, t_end=t1, MRTS=M)
        S1, S2 = st.acc(s1), st.acc(s2)
        pre = [t0 < t1, M >= 0, spec.valid_train(S1, t0, t1), spec.valid_train(S2, t0, t1)]
        from ..sym import uf_axioms
        pre += uf_axioms()
        ctx = Ctx(mode=mode, N1=N1, N2=N2, t0=t0, t1=t1, M=M, S1=S1, S2=S2, inputs={}, argorder=[])
        # RAT(a, b): the C01 ratio of the ISIs with cursors a, b
        ctx.RAT = z3.Function('ISI_ratio_of_cursors', I, I, R)
        ctx.defs = [(ctx.RAT, lambda a, b: self.rat_def(ctx, a, b))]
        return st, pre, ctx

    def rat_def(self, c, a, b):
        return spec.ratio(spec.nu(c.S1, a, c.t0, c.t1), spec.nu(c.S2, b, c.t0, c.t1), c.M)

    # ---- ghosts
    def ghost_init(self, st, c):
        st.vars['g1'] = z3.Store(z3.Const('g1_0', IARR), 0, toI(st.vars['index1']))
        st.vars['g2'] = z3.Store(z3.Const('g2_0', IARR), 0, toI(st.vars['index2']))
        st.vars['EV'] = z3.Store(z3.Const('EV_0', ARR), 0, toR(c.t0))
        st.vars['PS'] = z3.Store(z3.Const('PS_0', ARR), 0, z3.RealVal(0))

    def ghost_step(self, st, c):
        ix = toI(st.vars['index'])
        st.vars['g1'] = z3.Store(st.vars['g1'], ix - 1, toI(st.vars['index1']))
        st.vars['g2'] = z3.Store(st.vars['g2'], ix - 1, toI(st.vars['index2']))
        st.vars['EV'] = z3.Store(st.vars['EV'], ix - 1, toR(split(st.vars['last_t'])[0]))
        st.vars['PS'] = z3.Store(st.vars['PS'], ix - 1, toR(split(st.vars['isi_value'])[0]))

    # ---- invariant
    def inv_range(self, st, c):
        i1, i2, ix = st.vars['index1'], st.vars['index2'], st.vars['index']
        return z3.And(-1 <= i1, i1 <= c.N1 - 1, -1 <= i2, i2 <= c.N2 - 1, 1 <= ix, ix <= i1 + i2 + 3,
                      toI(st.vars['N1']) == c.N1, toI(st.vars['N2']) == c.N2)

    def inv_nu(self, st, c):
        n1, n2 = spec.nu(c.S1, st.vars['index1'], c.t0, c.t1), spec.nu(c.S2, st.vars['index2'], c.t0, c.t1)
        return z3.And(st.vars['nu1'] == n1, st.vars['nu2'] == n2, split(st.vars['curr_isi'])[0] == c.RAT(toI(st.vars['index1']), toI(st.vars['index2'])))

    def inv_cur(self, st, c):
        i1, i2, ix = st.vars['index1'], st.vars['index2'], st.vars['index']
        EV = st.vars['EV']
        cu = rmax(spec.cur(c.S1, i1, c.t0), spec.cur(c.S2, i2, c.t0))
        return z3.And(split(st.vars['last_t'])[0] == cu, z3.Select(EV, ix - 1) == cu, z3.Select(EV, 0) == c.t0,
                      z3.Implies(i1 < c.N1 - 1, c.S1[i1 + 1] > cu), z3.Implies(i2 < c.N2 - 1, c.S2[i2 + 1] > cu),
                      z3.Implies(i1 == -1, c.S1[0] > c.t0), z3.Implies(i2 == -1, c.S2[0] > c.t0))

    def inv_incr(self, st, c):
        ix, EV = st.vars['index'], st.vars['EV']
        return forall(0, ix - 1, lambda k: z3.Select(EV, k) < z3.Select(EV, k + 1))

    def inv_glast(self, st, c):
        ix = st.vars['index']
        return z3.And(z3.Select(st.vars['g1'], ix - 1) == st.vars['index1'], z3.Select(st.vars['g2'], ix - 1) == st.vars['index2'])

    def seg_left(self, c, g1, g2, EV, k):
        a, b, x = z3.Select(g1, k), z3.Select(g2, k), z3.Select(EV, k)
        return z3.And(-1 <= a, a <= c.N1 - 1, -1 <= b, b <= c.N2 - 1,
                      z3.Implies(a >= 0, c.S1[a] <= x), z3.Implies(b >= 0, c.S2[b] <= x),
                      z3.Implies(a == -1, c.S1[0] > x), z3.Implies(b == -1, c.S2[0] > x),
                      z3.Implies(k >= 1, z3.Or(z3.And(a >= 0, x == c.S1[a]), z3.And(b >= 0, x == c.S2[b]))))

    def inv_segs(self, st, c):
        ix = st.vars['index']
        return forall(0, ix, lambda k: self.seg_left(c, st.vars['g1'], st.vars['g2'], st.vars['EV'], k))

    def seg_right(self, c, g1, g2, EV, k):
        a, b, x = z3.Select(g1, k), z3.Select(g2, k), z3.Select(EV, k + 1)
        return z3.And(z3.Implies(a < c.N1 - 1, x <= c.S1[a + 1]), z3.Implies(b < c.N2 - 1, x <= c.S2[b + 1]))

    def inv_right(self, st, c):
        ix = st.vars['index']
        return forall(0, ix - 1, lambda k: self.seg_right(c, st.vars['g1'], st.vars['g2'], st.vars['EV'], k))

    def step_ok(self, c, g1, g2, EV, PS, k):
        """PS[k+1] = PS[k] + value of segment k * its length"""
        term = split(arith('*', c.RAT(z3.Select(g1, k), z3.Select(g2, k)), z3.Select(EV, k + 1) - z3.Select(EV, k)))[0]
        return z3.Select(PS, k + 1) == z3.Select(PS, k) + term

    def inv_sum(self, st, c):
        ix = st.vars['index']
        g1, g2, EV, PS = st.vars['g1'], st.vars['g2'], st.vars['EV'], st.vars['PS']
        return z3.And(z3.Select(PS, 0) == 0, split(st.vars['isi_value'])[0] == z3.Select(PS, ix - 1),
                      forall(0, ix - 1, lambda k: self.step_ok(c, g1, g2, EV, PS, k)))

    # ---- postcondition
    def posts(self, st, ret, c):
        ix = toI(st.vars['index'])
        last = split(st.vars['last_t'])[0]
        more = last < c.t1                                   # a last segment up to t_end was added after the loop
        n = z3.If(more, ix, ix - 1)
        EV = z3.If(more, z3.Store(st.vars['EV'], ix, toR(c.t1)), st.vars['EV'])
        PS = z3.If(more, z3.Store(st.vars['PS'], ix, toR(split(st.vars['isi_value'])[0])), st.vars['PS'])
        g1, g2 = st.vars['g1'], st.vars['g2']
        X = lambda k: z3.Select(EV, k)

        def seg(k):
            a, b = z3.Select(g1, k), z3.Select(g2, k)
            return z3.And(-1 <= a, a <= c.N1 - 1, -1 <= b, b <= c.N2 - 1,
                          spec.covers(c.S1, a, X(k), X(k + 1)), spec.covers(c.S2, b, X(k), X(k + 1)),
                          spec.ratio_den(spec.nu(c.S1, a, c.t0, c.t1), spec.nu(c.S2, b, c.t0, c.t1), c.M) > 0)
        r, f = split(ret)
        T = c.t1 - c.t0
        return [('shape', z3.And(n >= 1, X(0) == c.t0, X(n) == c.t1)),
                ('incr', forall(0, n, lambda k: X(k) < X(k + 1))),
                ('cover', forall(0, n, seg)),
                ('member', forall(1, n, lambda k: z3.Or(z3.And(z3.Select(g1, k) >= 0, X(k) == c.S1[z3.Select(g1, k)]),
                                                        z3.And(z3.Select(g2, k) >= 0, X(k) == c.S2[z3.Select(g2, k)])))),
                ('partial_sums', z3.And(z3.Select(PS, 0) == 0, forall(0, n, lambda k: self.step_ok(c, g1, g2, EV, PS, k)))),
                ('average', r == split(arith('/', z3.Select(PS, n), T))[0]),
                ('finite', f)]


from .spike_p import SpikeProfileP  # noqa: E402


class SpikeDistanceP(SpikeProfileP):
    """spike_distance_cython (single pass): average of the SPIKE profile of the C02 definition (trapezoids over the
    segments of the ghost segmentation).  Reuses the spec functions and callee contracts of SpikeProfileP."""
    nf_arrays = ()

    def __init__(self, RI=False):
        SpikeProfileP.__init__(self, DIST, 'spike_distance_cython', names=('t1', 't2'), RI=RI)
        self.loops = {1: LoopSpec(inv=[('range', self.inv_range), ('train1', lambda st, c: self.inv_train(st, c, 1)),
                                       ('train2', lambda st, c: self.inv_train(st, c, 2)), ('cur', self.inv_cur), ('incr', self.inv_incr),
                                       ('glast', self.inv_glast), ('ystart', self.inv_ystart), ('segs', self.inv_segs), ('right', self.inv_right),
                                       ('sum', self.inv_sum), ('sumsteps', self.inv_sumsteps)],
                                  init=self.ghost_init, step=self.ghost_step, ghost=('g1', 'g2', 'EV', 'PS'), cumulative=True)}

    split_cases = True

    # ---- ghosts
    def ghost_init(self, st, c):
        st.vars['g1'] = z3.Store(z3.Const('g1_0', IARR), 0, toI(st.vars['index1']))
        st.vars['g2'] = z3.Store(z3.Const('g2_0', IARR), 0, toI(st.vars['index2']))
        st.vars['EV'] = z3.Store(z3.Const('EV_0', ARR), 0, toR(c.t0))
        st.vars['PS'] = z3.Store(z3.Const('PS_0', ARR), 0, z3.RealVal(0))

    def ghost_step(self, st, c):
        ix = toI(st.vars['index'])
        st.vars['g1'] = z3.Store(st.vars['g1'], ix - 1, toI(st.vars['index1']))
        st.vars['g2'] = z3.Store(st.vars['g2'], ix - 1, toI(st.vars['index2']))
        st.vars['EV'] = z3.Store(st.vars['EV'], ix - 1, toR(split(st.vars['t_last'])[0]))
        st.vars['PS'] = z3.Store(st.vars['PS'], ix - 1, toR(split(st.vars['spike_value'])[0]))

    # ---- invariant
    def inv_range(self, st, c):
        i1, i2, ix = st.vars['index1'], st.vars['index2'], st.vars['index']
        ta1, ta2 = st.acc('t_aux1'), st.acc('t_aux2')
        return z3.And(-1 <= i1, i1 <= c.N1 - 1, -1 <= i2, i2 <= c.N2 - 1, 1 <= ix, ix <= i1 + i2 + 3,
                      toI(st.vars['N1']) == c.N1, toI(st.vars['N2']) == c.N2,
                      ta1[0] == c.aux[1][0], ta1[1] == c.aux[1][1], ta2[0] == c.aux[2][0], ta2[1] == c.aux[2][1],
                      z3.Implies(i1 == -1, c.S1[0] > c.t0), z3.Implies(i2 == -1, c.S2[0] > c.t0))

    def inv_cur(self, st, c):
        i1, i2, ix = st.vars['index1'], st.vars['index2'], st.vars['index']
        EV = st.vars['EV']
        cu = rmax(spec.cur(c.S1, i1, c.t0), spec.cur(c.S2, i2, c.t0))
        return z3.And(split(st.vars['t_last'])[0] == cu, z3.Select(EV, ix - 1) == cu, z3.Select(EV, 0) == c.t0,
                      z3.Implies(i1 < c.N1 - 1, c.S1[i1 + 1] > cu), z3.Implies(i2 < c.N2 - 1, c.S2[i2 + 1] > cu))

    def inv_incr(self, st, c):
        ix, EV = st.vars['index'], st.vars['EV']
        return forall(0, ix - 1, lambda k: z3.Select(EV, k) < z3.Select(EV, k + 1))

    def inv_ystart(self, st, c):
        """value at the left end of the current segment (an event AT t_end starts no segment)"""
        y, f = split(st.vars['y_start'])
        tl = split(st.vars['t_last'])[0]
        return z3.Implies(tl < c.t1, z3.And(y == self.Dspec(c, st.vars['index1'], st.vars['index2'], tl), f))

    def seg_left(self, c, g1, g2, EV, k):
        a, b, x = z3.Select(g1, k), z3.Select(g2, k), z3.Select(EV, k)
        return z3.And(-1 <= a, a <= c.N1 - 1, -1 <= b, b <= c.N2 - 1,
                      z3.Implies(a >= 0, c.S1[a] <= x), z3.Implies(b >= 0, c.S2[b] <= x),
                      z3.Implies(a == -1, c.S1[0] > x), z3.Implies(b == -1, c.S2[0] > x),
                      z3.Implies(k >= 1, z3.Or(z3.And(a >= 0, x == c.S1[a]), z3.And(b >= 0, x == c.S2[b]))))

    def inv_segs(self, st, c):
        ix = st.vars['index']
        return forall(0, ix, lambda k: self.seg_left(c, st.vars['g1'], st.vars['g2'], st.vars['EV'], k))

    def inv_right(self, st, c):
        ix = st.vars['index']
        g1, g2, EV = st.vars['g1'], st.vars['g2'], st.vars['EV']
        return forall(0, ix - 1, lambda k: z3.And(
            z3.Implies(z3.Select(g1, k) < c.N1 - 1, z3.Select(EV, k + 1) <= c.S1[z3.Select(g1, k) + 1]),
            z3.Implies(z3.Select(g2, k) < c.N2 - 1, z3.Select(EV, k + 1) <= c.S2[z3.Select(g2, k) + 1])))

    def step_ok(self, c, g1, g2, EV, PS, k):
        """PS[k+1] = PS[k] + trapezoid of segment k"""
        a, b = z3.Select(g1, k), z3.Select(g2, k)
        xl, xr = z3.Select(EV, k), z3.Select(EV, k + 1)
        mean = arith('*', Fraction(1, 2), self.Dspec(c, a, b, xl) + self.Dspec(c, a, b, xr))
        return z3.Select(PS, k + 1) == z3.Select(PS, k) + split(arith('*', mean, xr - xl))[0]

    def inv_sum(self, st, c):
        ix = st.vars['index']
        PS = st.vars['PS']
        return z3.And(z3.Select(PS, 0) == 0, split(st.vars['spike_value'])[0] == z3.Select(PS, ix - 1))

    def inv_sumsteps(self, st, c):
        ix = st.vars['index']
        g1, g2, EV, PS = st.vars['g1'], st.vars['g2'], st.vars['EV'], st.vars['PS']
        return forall(0, ix - 1, lambda k: self.step_ok(c, g1, g2, EV, PS, k))

    # ---- postcondition
    def posts(self, st, ret, c):
        ix = toI(st.vars['index'])
        last = split(st.vars['t_last'])[0]
        more = last < c.t1
        n = z3.If(more, ix, ix - 1)
        EV = z3.If(more, z3.Store(st.vars['EV'], ix, toR(c.t1)), st.vars['EV'])
        PS = z3.If(more, z3.Store(st.vars['PS'], ix, toR(split(st.vars['spike_value'])[0])), st.vars['PS'])
        g1, g2 = st.vars['g1'], st.vars['g2']
        X = lambda k: z3.Select(EV, k)

        def seg(k):
            a, b = z3.Select(g1, k), z3.Select(g2, k)
            return z3.And(-1 <= a, a <= c.N1 - 1, -1 <= b, b <= c.N2 - 1,
                          spec.covers(c.S1, a, X(k), X(k + 1)), spec.covers(c.S2, b, X(k), X(k + 1)),
                          self.NU(c, 1, a) > 0, self.NU(c, 2, b) > 0)
        r, f = split(ret)
        return [('shape', z3.And(n >= 1, X(0) == c.t0, X(n) == c.t1)),
                ('incr', forall(0, n, lambda k: X(k) < X(k + 1))),
                ('cover', forall(0, n, seg)),
                ('member', forall(1, n, lambda k: z3.Or(z3.And(z3.Select(g1, k) >= 0, X(k) == c.S1[z3.Select(g1, k)]),
                                                        z3.And(z3.Select(g2, k) >= 0, X(k) == c.S2[z3.Select(g2, k)])))),
                ('partial_sums_start', z3.Select(PS, 0) == 0),
                ('partial_sums', forall(0, n, lambda k: self.step_ok(c, g1, g2, EV, PS, k))),
                ('average', r == split(arith('/', z3.Select(PS, n), c.t1 - c.t0))[0]),
                ('finite', f)]
