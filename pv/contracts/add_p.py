"""Inductive (unbounded) contracts of add_piece_wise_lin_python / _cython (C09) and of add_discrete_function_python /
_cython (C11).  Nonlinear arithmetic (the linear interpolation) is abstracted as in spike_p.py (sym.UF + pv/ufarith.py);
the interpolated value of an operand is a named spec function, unfolded for ground applications only."""
import z3
from ..sym import *  # noqa
from ..engine import LoopSpec
from ..harness import Contract, Ctx, in_array
from .. import spec
from .add import fresh_result


class AddPwlP(Contract):
    rel = 'pyspike/cython/python_backend.py'
    func = 'add_piece_wise_lin_python'
    uf_arith = True

    def __init__(self, rel=None, func=None):
        if rel:
            self.rel = rel
        if func:
            self.func = func
        self.pyx = self.rel.endswith('.pyx')
        main = LoopSpec(inv=[('rng', self.inv_rng), ('cur', self.inv_cur), ('incr', self.inv_incr), ('seg', self.inv_seg), ('segr', self.inv_segr)],
                        init=self.ghost_init, step=self.ghost_step, ghost=('c1', 'c2'), cumulative=True)
        self.loops = {1: main}
        if self.pyx:
            self.loops[2] = LoopSpec(inv=[('tail', lambda st, c: self.inv_tail(st, c, 1))], init=self.tail_init, cumulative=True)
            self.loops[3] = LoopSpec(inv=[('tail', lambda st, c: self.inv_tail(st, c, 2))], init=self.tail_init, cumulative=True)

    def setup(self, mode, size, values=None):
        if mode != 'P':
            raise NotImplementedError("use AddPwl for the bounded mode")
        st = State()
        n1, n2 = z3.Int('n1'), z3.Int('n2')
        a = {}
        for xn, ynames, n in (('x1', ('y11', 'y12'), n1), ('x2', ('y21', 'y22'), n2)):
            a[xn] = in_array(st, xn, n + 1, mode)
            for yn in ynames:
                a[yn] = in_array(st, yn, n, mode)
        st.vars.update(a)
        A = {k: st.acc(v) for k, v in a.items()}
        pre = [n1 >= 1, n2 >= 1, spec.sorted_strict(A['x1']), spec.sorted_strict(A['x2']),
               A['x1'][0] == A['x2'][0], A['x1'][n1] == A['x2'][n2]]
        from ..sym import uf_axioms
        pre += uf_axioms()
        ctx = Ctx(mode=mode, n1=n1, n2=n2, A=A, inputs={}, argorder=[])
        # LIN_w(a, x): value at time x of the straight line through (X[a], Y_1[a]) and (X[a+1], Y_2[a])
        ctx.LIN = {1: z3.Function('LIN_of_operand1', I, R, R), 2: z3.Function('LIN_of_operand2', I, R, R)}
        ctx.defs = [(ctx.LIN[1], lambda g, x: self.lin_def(ctx, 1, g, x)), (ctx.LIN[2], lambda g, x: self.lin_def(ctx, 2, g, x))]
        return st, pre, ctx

    def ops(self, c, w):
        A = c.A
        return (A['x1'], A['y11'], A['y12'], c.n1) if w == 1 else (A['x2'], A['y21'], A['y22'], c.n2)

    def lin_def(self, c, w, g, x):
        X, Ya, Yb, n = self.ops(c, w)
        v = arith('+', Ya[g], arith('/', arith('*', Yb[g] - Ya[g], x - X[g]), X[g + 1] - X[g]))
        return split(v)[0]

    def value(self, c, a, b, x):
        return c.LIN[1](toI(a), toR(x)) + c.LIN[2](toI(b), toR(x))

    # ---- ghosts: cursor of each operand on result piece k
    def ghost_init(self, st, c):
        st.vars['c1'] = z3.Store(z3.Const('c1_0', IARR), 0, 0)
        st.vars['c2'] = z3.Store(z3.Const('c2_0', IARR), 0, 0)

    def ghost_step(self, st, c):
        ix = st.vars['index']
        st.vars['c1'] = z3.Store(st.vars['c1'], ix, toI(st.vars['index1']))
        st.vars['c2'] = z3.Store(st.vars['c2'], ix, toI(st.vars['index2']))

    def inv_rng(self, st, c):
        i1, i2, ix = st.vars['index1'], st.vars['index2'], st.vars['index']
        return z3.And(0 <= i1, i1 < c.n1, 0 <= i2, i2 < c.n2, 0 <= ix, ix <= i1 + i2,
                      toI(st.vars['x_new'].n) == c.n1 + c.n2 + 2, toI(st.vars['y1_new'].n) == c.n1 + c.n2 + 1,
                      toI(st.vars['y2_new'].n) == c.n1 + c.n2 + 1)

    def inv_cur(self, st, c):
        i1, i2, ix = st.vars['index1'], st.vars['index2'], st.vars['index']
        X1, X2 = c.A['x1'], c.A['x2']
        xn = st.acc('x_new')
        return z3.And(xn[ix] == rmax(X1[i1], X2[i2]), X1[i1 + 1] > xn[ix], X2[i2 + 1] > xn[ix], xn[0] == X1[0],
                      z3.Select(st.vars['c1'], ix) == i1, z3.Select(st.vars['c2'], ix) == i2)

    def inv_incr(self, st, c):
        ix = st.vars['index']
        xn = st.acc('x_new')
        return forall(0, ix, lambda k: xn[k] < xn[k + 1])

    def cover_left(self, st, c, k, xn):
        c1, c2 = z3.Select(st.vars['c1'], k), z3.Select(st.vars['c2'], k)
        X1, X2 = c.A['x1'], c.A['x2']
        return z3.And(0 <= c1, c1 < c.n1, 0 <= c2, c2 < c.n2, X1[c1] <= xn[k], X2[c2] <= xn[k],
                      z3.Or(xn[k] == X1[c1], xn[k] == X2[c2]))

    def inv_seg(self, st, c):
        ix = st.vars['index']
        xn, ya = st.acc('x_new'), st.acc('y1_new')

        def f(k):
            c1, c2 = z3.Select(st.vars['c1'], k), z3.Select(st.vars['c2'], k)
            return z3.And(self.cover_left(st, c, k, xn), ya[k] == self.value(c, c1, c2, xn[k]))
        return forall(0, ix + 1, f)

    def inv_segr(self, st, c):
        ix = st.vars['index']
        xn, yb = st.acc('x_new'), st.acc('y2_new')
        X1, X2 = c.A['x1'], c.A['x2']

        def f(k):
            c1, c2 = z3.Select(st.vars['c1'], k), z3.Select(st.vars['c2'], k)
            return z3.And(xn[k + 1] <= X1[c1 + 1], xn[k + 1] <= X2[c2 + 1], yb[k] == self.value(c, c1, c2, xn[k + 1]))
        return forall(0, ix, f)

    # ---- tail loops of the Cython version
    def tail_init(self, st, c):
        st.vars['ya_at_tail'] = st.heap[st.vars['y1_new'].buf].data
        st.vars['yb_at_tail'] = st.heap[st.vars['y2_new'].buf].data

    def inv_tail(self, st, c, which):
        i, ix = st.vars['i'], st.vars['index']
        ya, yb = st.acc('y1_new'), st.acc('y2_new')
        sa, sb = st.vars['ya_at_tail'], st.vars['yb_at_tail']
        if which == 1:
            iA, iB, (XA, YA1, YA2, nA), o = st.vars['index1'], st.vars['index2'], self.ops(c, 1), 2
        else:
            iA, iB, (XA, YA1, YA2, nA), o = st.vars['index2'], st.vars['index1'], self.ops(c, 2), 1
        L = lambda x: c.LIN[o](toI(iB), toR(x))
        return z3.And(0 <= i, i <= nA - iA - 1,
                      forall(ix + 1, ix + 1 + i, lambda q: ya[q] == YA1[iA + (q - ix)] + L(XA[iA + (q - ix)])),
                      forall(ix, ix + i, lambda q: yb[q] == YA2[iA + (q - ix)] + L(XA[iA + 1 + (q - ix)])),
                      forall(0, ix + 1, lambda k: ya[k] == z3.Select(sa, k)),
                      forall(0, ix, lambda k: yb[k] == z3.Select(sb, k)))

    # ---- postcondition (C09): both one-sided limits of every result piece are the sums of the operands' lines
    def posts(self, st, ret, c):
        x, y1, y2 = ret
        X, YA, YB = st.acc(x), st.acc(y1), st.acc(y2)
        n = YA.n
        X1, X2 = c.A['x1'], c.A['x2']
        i1, i2, ixf = toI(st.vars['index1']), toI(st.vars['index2']), toI(st.vars['index'])
        t1, t2 = i1 + 1 < c.n1, i2 + 1 < c.n2                 # which tail ran
        ixl = z3.If(t1, ixf - (c.n1 - i1 - 1), z3.If(t2, ixf - (c.n2 - i2 - 1), ixf))      # `index` when the merge loop ended
        c1, c2 = st.vars['c1'], st.vars['c2']
        wa = lambda k: z3.If(k <= ixl, z3.Select(c1, k), z3.If(t1, i1 + (k - ixl), i1))
        wb = lambda k: z3.If(k <= ixl, z3.Select(c2, k), z3.If(z3.And(z3.Not(t1), t2), i2 + (k - ixl), i2))

        def val(k):
            a, b = wa(k), wb(k)
            return z3.And(0 <= a, a < c.n1, 0 <= b, b < c.n2, X1[a] <= X[k], X[k + 1] <= X1[a + 1], X2[b] <= X[k], X[k + 1] <= X2[b + 1],
                          YA[k] == self.value(c, a, b, X[k]), YB[k] == self.value(c, a, b, X[k + 1]))
        return [('shape', z3.And(toI(X.n) == toI(n) + 1, toI(YB.n) == toI(n), toI(n) >= 1, X[0] == X1[0], X[n] == X1[c.n1])),
                ('incr', forall(0, n, lambda k: X[k] < X[k + 1])),
                ('val', forall(0, n, val)),
                ('fresh_arrays', fresh_result(st, ret)),
                ('member', forall(0, toI(n) + 1, lambda k: z3.Or(exists(0, c.n1 + 1, lambda a: X[k] == X1[a], name='a'),
                                                                 exists(0, c.n2 + 1, lambda b: X[k] == X2[b], name='b'))))]


class AddDiscreteP(Contract):
    """C11: add_discrete_function_python / _cython for operands of any length.  x arrays: edge, events..., edge.
    Cursor form: c1[k], c2[k] = last consumed entry of each operand after result entry k was written; the cursors go
    from 0 to the last event in steps of at most one, every step that advances emits exactly that event, values and
    multiplicities are summed where both advance, and an operand that does not advance has no event at that time."""
    rel = 'pyspike/cython/python_backend.py'
    func = 'add_discrete_function_python'
    uf_arith = True       # no products here; used for the skolemisation of universally quantified goals

    def __init__(self, rel=None, func=None):
        if rel:
            self.rel = rel
        if func:
            self.func = func
        self.loops = {1: LoopSpec(inv=[('rng', self.inv_rng), ('cur', self.inv_cur), ('ev', self.inv_ev), ('incr', self.inv_incr)],
                                  init=self.ghost_init, step=self.ghost_step, ghost=('c1', 'c2'), cumulative=True)}

    def setup(self, mode, size, values=None):
        if mode != 'P':
            raise NotImplementedError("use AddDiscrete for the bounded mode")
        st = State()
        n1, n2 = z3.Int('n1'), z3.Int('n2')        # array lengths (events + 2)
        names = ['x1', 'y1', 'mp1', 'x2', 'y2', 'mp2']
        a = {}
        for nm, n in zip(names, [n1] * 3 + [n2] * 3):
            a[nm] = in_array(st, nm, n, mode)
        st.vars.update(a)
        A = {k: st.acc(v) for k, v in a.items()}
        pre = [n1 >= 2, n2 >= 2, A['x1'][0] == A['x2'][0], A['x1'][n1 - 1] == A['x2'][n2 - 1], A['x1'][0] < A['x1'][n1 - 1]]
        for x, n in ((A['x1'], n1), (A['x2'], n2)):
            # events strictly increasing, inside the closed interval (events on the edges allowed)
            # (all-pairs form of 'strictly increasing', as spec.sorted_strict: the solver does no induction over adjacent pairs)
            pre += [forall2(1, n - 1, lambda a, b, x=x: x[a] < x[b], name='s'), z3.Implies(n > 2, z3.And(x[0] <= x[1], x[n - 2] <= x[n - 1]))]
        ctx = Ctx(mode=mode, n1=n1, n2=n2, A=A, inputs={}, argorder=[])
        return st, pre, ctx

    def ghost_init(self, st, c):
        st.vars['c1'] = z3.Store(z3.Const('c1_0', IARR), 0, 0)
        st.vars['c2'] = z3.Store(z3.Const('c2_0', IARR), 0, 0)

    def ghost_step(self, st, c):
        ix = st.vars['index']
        st.vars['c1'] = z3.Store(st.vars['c1'], ix, toI(st.vars['index1']))
        st.vars['c2'] = z3.Store(st.vars['c2'], ix, toI(st.vars['index2']))

    def entry(self, c, X, Y, MP, k, a, pa, b, pb):
        """result entry k written when the cursors moved from (pa, pb) to (a, b)"""
        A = c.A
        X1, X2 = A['x1'], A['x2']
        adv1, adv2 = a == pa + 1, b == pb + 1
        zero = z3.RealVal(0)
        return z3.And(0 <= pa, a <= c.n1 - 2, 0 <= pb, b <= c.n2 - 2, z3.Or(a == pa, adv1), z3.Or(b == pb, adv2), z3.Or(adv1, adv2),
                      z3.Implies(adv1, X[k] == X1[a]), z3.Implies(adv2, X[k] == X2[b]),
                      z3.Implies(z3.Not(adv1), z3.And(z3.Implies(a >= 1, X1[a] < X[k]), z3.Implies(a + 1 <= c.n1 - 2, X1[a + 1] > X[k]))),
                      z3.Implies(z3.Not(adv2), z3.And(z3.Implies(b >= 1, X2[b] < X[k]), z3.Implies(b + 1 <= c.n2 - 2, X2[b + 1] > X[k]))),
                      Y[k] == z3.If(adv1, A['y1'][a], zero) + z3.If(adv2, A['y2'][b], zero),
                      MP[k] == z3.If(adv1, A['mp1'][a], zero) + z3.If(adv2, A['mp2'][b], zero))

    def inv_rng(self, st, c):
        i1, i2, ix = st.vars['index1'], st.vars['index2'], st.vars['index']
        L = c.n1 + c.n2
        return z3.And(0 <= i1, i1 <= c.n1 - 2, 0 <= i2, i2 <= c.n2 - 2, 0 <= ix, ix <= i1 + i2, i1 + i2 <= 2 * ix,
                      toI(st.vars['N1']) == c.n1 - 1, toI(st.vars['N2']) == c.n2 - 1,
                      toI(st.vars['x_new'].n) == L, toI(st.vars['y_new'].n) == L, toI(st.vars['mp_new'].n) == L)

    def inv_cur(self, st, c):
        i1, i2, ix = st.vars['index1'], st.vars['index2'], st.vars['index']
        X1, X2 = c.A['x1'], c.A['x2']
        xn = st.acc('x_new')
        return z3.And(z3.Select(st.vars['c1'], ix) == i1, z3.Select(st.vars['c2'], ix) == i2,
                      z3.Select(st.vars['c1'], 0) == 0, z3.Select(st.vars['c2'], 0) == 0, xn[0] == X1[0],
                      z3.Implies(ix == 0, z3.And(i1 == 0, i2 == 0)),
                      z3.Implies(ix >= 1, z3.And(z3.Implies(i1 >= 1, X1[i1] <= xn[ix]), z3.Implies(i2 >= 1, X2[i2] <= xn[ix]),
                                                 z3.Implies(i1 + 1 <= c.n1 - 2, X1[i1 + 1] > xn[ix]),
                                                 z3.Implies(i2 + 1 <= c.n2 - 2, X2[i2 + 1] > xn[ix]))))

    def inv_ev(self, st, c):
        ix = st.vars['index']
        c1, c2 = st.vars['c1'], st.vars['c2']
        xn, yn, mn = st.acc('x_new'), st.acc('y_new'), st.acc('mp_new')
        return forall(1, ix + 1, lambda k: self.entry(c, xn, yn, mn, k, z3.Select(c1, k), z3.Select(c1, k - 1), z3.Select(c2, k), z3.Select(c2, k - 1)))

    def inv_incr(self, st, c):
        ix = st.vars['index']
        xn = st.acc('x_new')
        return forall(1, ix, lambda k: xn[k] < xn[k + 1])

    def posts(self, st, ret, c):
        x, y, mp = ret
        X, Y, MP = st.acc(x), st.acc(y), st.acc(mp)
        n = toI(X.n)
        A = c.A
        i1, i2, ixf = toI(st.vars['index1']), toI(st.vars['index2']), toI(st.vars['index'])
        N1, N2 = c.n1 - 1, c.n2 - 1
        t1, t2 = i1 + 1 < N1, z3.And(z3.Not(i1 + 1 < N1), i2 + 1 < N2)            # which tail ran
        ixl = z3.If(t1, ixf - (N1 - i1), z3.If(t2, ixf - (N2 - i2), ixf - 1))      # `index` when the merge loop ended
        c1, c2 = st.vars['c1'], st.vars['c2']
        wa = lambda k: z3.If(k <= ixl, z3.Select(c1, k), z3.If(t1, i1 + (k - ixl), i1))
        wb = lambda k: z3.If(k <= ixl, z3.Select(c2, k), z3.If(t2, i2 + (k - ixl), i2))
        return [('shape', z3.And(toI(Y.n) == n, toI(MP.n) == n, n >= 2, X[0] == A['x1'][0], X[n - 1] == A['x1'][c.n1 - 1])),
                ('fresh_arrays', fresh_result(st, ret)),
                ('incr', forall(1, n - 2, lambda k: X[k] < X[k + 1])),
                ('cursors', z3.And(wa(0) == 0, wb(0) == 0, wa(n - 2) == c.n1 - 2, wb(n - 2) == c.n2 - 2)),
                ('events', forall(1, n - 1, lambda k: self.entry(c, X, Y, MP, k, wa(k), wa(k - 1), wb(k), wb(k - 1)))),
                ('edges', z3.Implies(n > 2, z3.And(Y[0] == Y[1], MP[0] == MP[1])))]
