"""Inductive (unbounded) contract of the per-spike coincidence indicator behind filter_by_spike_sync (C03 / C17):
coincidence_single_python / coincidence_single_profile_cython.  Adjacent form: c[i] = 1 iff spike i of train 1 is
coincident with the last train-2 spike strictly before it or with the first one at or after it.  The scan sometimes
skips the check of the preceding spike (when the cursor already stands on the following one); that this is right rests
on 'a coincident pair has no spike strictly between', which is proved here as the first clause of the invariant
(the same fact as lemma coincident_pairs_are_adjacent) and then used by the later clauses."""
import z3
from ..sym import *  # noqa
from ..engine import LoopSpec
from ..harness import Contract, Ctx, in_array, in_real
from .. import spec
from .sync import tau_spec, limit_of, model_get_tau


class CoincidenceSingleP(Contract):
    rel = 'pyspike/cython/python_backend.py'
    func = 'coincidence_single_python'
    uf_arith = True            # only for the skolemisation of universally quantified goals (no symbolic products here)

    def __init__(self, rel=None, func=None):
        if rel:
            self.rel = rel
        if func:
            self.func = func
        self.loops = {1: LoopSpec(inv=[('lemma', self.inv_lemma), ('rng', self.inv_rng), ('cursor', self.inv_cursor), ('vals', self.inv_vals)],
                                  init=self.ghost_init, step=self.ghost_step, ghost=('P',), cumulative=True),
                      2: LoopSpec(inv=[('inner', self.inv_inner)], init=self.inner_init, cumulative=True)}

    def call_models(self, mode):
        return {'get_tau': model_get_tau}

    def setup(self, mode, size, values=None):
        if mode != 'P':
            raise NotImplementedError("use CoincidenceSingle for the bounded mode")
        st = State()
        N1, N2 = z3.Int('N1'), z3.Int('N2')
        t0, t1, M, mt = in_real('t_start'), in_real('t_end'), in_real('MRTS'), in_real('max_tau')
        s1 = in_array(st, 'spikes1', N1, mode)
        s2 = in_array(st, 'spikes2', N2, mode)
        st.vars.update(spikes1=s1, spikes2=s2, t_start=t0, t_end=t1, MRTS=M, max_tau=mt)
        S1, S2 = st.acc(s1), st.acc(s2)
        pre = [t0 < t1, M >= 0, mt >= 0, spec.valid_train(S1, t0, t1, nonempty=False), spec.valid_train(S2, t0, t1, nonempty=False)]
        ctx = Ctx(mode=mode, N1=N1, N2=N2, t0=t0, t1=t1, M=M, mt=mt, S1=S1, S2=S2, lim=limit_of(mt, t0, t1), inputs={}, argorder=[])
        return st, pre, ctx

    def coinc(self, c, a, b):
        d = c.S1[a] - c.S2[b]
        return z3.If(d >= 0, d, -d) < tau_spec(c.S1, c.S2, a, b, c.lim, c.M)

    def located(self, c, p, k):
        """train-2 spike p is the last one strictly before spike k of train 1 (p = -1: none)"""
        return z3.And(-1 <= p, p <= c.N2 - 1, z3.Implies(p >= 0, c.S2[p] < c.S1[k]), z3.Implies(p + 1 <= c.N2 - 1, c.S1[k] <= c.S2[p + 1]))

    def value(self, c, k, p):
        hit = z3.Or(z3.And(p >= 0, self.coinc(c, k, p)), z3.And(p + 1 <= c.N2 - 1, self.coinc(c, k, p + 1)))
        return z3.If(hit, z3.RealVal(1), z3.RealVal(0))

    # ghost: P[k] = index of the last train-2 spike strictly before spike k of train 1
    def ghost_init(self, st, c):
        st.vars['P'] = z3.Const('P_0', IARR)

    def ghost_step(self, st, c):
        i = toI(st.vars['i']) - 1                 # the spike just processed (the loop variable has been advanced)
        j = toI(st.vars['j'])
        p = z3.If(z3.And(j >= 0, c.S2[j] >= c.S1[i]), j - 1, j)
        st.vars['P'] = z3.Store(st.vars['P'], i, p)

    def inv_lemma(self, st, c):
        """a train-2 spike that lies before the PREVIOUS train-1 spike is not coincident with this one"""
        a, b = fresh('la', I), fresh('lb', I)
        return z3.ForAll([a, b], z3.Implies(z3.And(1 <= a, a < c.N1, 0 <= b, b < c.N2, c.S2[b] < c.S1[a - 1]), z3.Not(self.coinc(c, a, b))))

    def inv_rng(self, st, c):
        i, j = st.vars['i'], st.vars['j']
        return z3.And(0 <= i, i <= c.N1, -1 <= j, j <= c.N2 - 1, toI(st.vars['c'].n) == c.N1, st.vars['true_max'] == c.lim,
                      toI(st.vars['N1']) == c.N1, toI(st.vars['N2']) == c.N2)

    def inv_cursor(self, st, c):
        """every train-2 spike before the cursor lies before the previous train-1 spike"""
        i, j = st.vars['i'], st.vars['j']
        return z3.And(z3.Implies(i == 0, j == -1), z3.Implies(z3.And(i >= 1, j >= 1), c.S2[j - 1] < c.S1[i - 1]))

    def inv_vals(self, st, c):
        i = st.vars['i']
        C, P = st.acc('c'), st.vars['P']
        return z3.And(forall(0, i, lambda k: z3.And(self.located(c, z3.Select(P, k), k), C[k] == self.value(c, k, z3.Select(P, k)))),
                      forall(i, c.N1, lambda k: C[k] == 0))

    # inner while: the cursor moves forward over train-2 spikes that lie before spike i
    def inner_init(self, st, c):
        st.vars['jh'] = st.vars['j']

    def inv_inner(self, st, c):
        i, j, jh = st.vars['i'], st.vars['j'], st.vars['jh']
        return z3.And(toI(jh) <= j, j <= c.N2 - 1, z3.Implies(j > toI(jh), c.S2[j] < c.S1[i]))

    def posts(self, st, ret, c):
        C, P = st.acc(ret), st.vars['P']
        return [('shape', toI(C.n) == c.N1),
                ('located', forall(0, c.N1, lambda k: self.located(c, z3.Select(P, k), k))),
                ('c', forall(0, c.N1, lambda k: C[k] == self.value(c, k, z3.Select(P, k))))]
