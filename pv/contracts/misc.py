"""Contracts of the remaining functions: SpikeTrain.get_spikes_non_empty, class methods add / mul_scalar / copy /
constructor (C09 histories), reconcile_spike_trains (C13), isi_lengths / default_thresh_ (C15), merge_spike_trains (C20)."""
import z3
from ..sym import *  # noqa
from ..harness import Contract, Ctx, in_array, in_real
from .. import spec
from .add import AddPwc, AddPwl, AddDiscrete


class NonEmpty(Contract):
    rel = 'pyspike/SpikeTrain.py'
    cls = 'SpikeTrain'
    func = 'get_spikes_non_empty'

    def setup(self, mode, size, values=None):
        st = State()
        n = size[0] if mode == 'B' else z3.Int('n')
        t0, t1 = in_real('t_start', values), in_real('t_end', values)
        sp = in_array(st, 'spikes', n, mode, values)
        rec = st.new_rec('SpikeTrain', {'__local__': False, 'spikes': sp, 't_start': t0, 't_end': t1})
        st.vars['self'] = rec
        S = st.acc(sp)
        pre = [cmp('<', t0, t1), spec.valid_train(S, t0, t1, nonempty=False)]
        return st, pre, Ctx(mode=mode, n=n, S=S, sp=sp, t0=t0, t1=t1, argorder=[],
                            inputs=dict(spikes=('array', 'spikes', n), t_start=('real', 't_start'), t_end=('real', 't_end')),
                            argspec=[('obj', 'SpikeTrain', dict(spikes='spikes', t_start='t_start', t_end='t_end'))])

    def posts(self, st, ret, c):
        R_ = st.acc(ret)
        empty = cmp('==', c.n, 0)
        one = band(cmp('==', R_.n, 2), cmp('==', R_[0], c.t0), cmp('==', R_[1], c.t1)) if (isinstance(R_.n, int) and R_.n >= 2) \
            else (False if isinstance(R_.n, int) else band(cmp('==', R_.n, 2), R_[0] == c.t0, R_[1] == c.t1))
        same = band(cmp('==', R_.n, c.n), forall(0, c.n, lambda k: R_[k] == c.S[k] if is_z3(k) or k < (R_.n if isinstance(R_.n, int) else 10**9) else False))
        return [('empty_train_is_one_interval', implies(empty, one)), ('spikes_returned', implies(bnot(empty), same))]


# ---------------------------------------------------------------------------------------------
class MethodBase(Contract):
    """methods of the function classes that change or duplicate the object (C09)"""
    kind = 'pwc'
    fields = ('x', 'y')

    def __init__(self, method, config='fallback'):
        self.func = method
        self.config = config

    def make(self, st, name, n, mode, values, prefix):
        f = {'__local__': False}
        nx = n + 2 if self.kind == 'disc' else n + 1
        f['x'] = in_array(st, prefix + 'x', nx, mode, values)
        for nm in self.fields[1:]:
            f[nm] = in_array(st, prefix + nm, nx if self.kind == 'disc' else n, mode, values)
        rec = st.new_rec(self.cls, f)
        st.vars[name] = rec
        return rec, {k: st.acc(v) for k, v in f.items() if k != '__local__'}

    def wf(self, A):
        X = A['x']
        m = X.n
        if self.kind == 'disc':
            return [cmp('<', X[0], X[m - 1])] + [cmp('<', X[k], X[k + 1]) for k in range(1, m - 2)] + \
                   ([cmp('<=', X[0], X[1]), cmp('<=', X[m - 2], X[m - 1])] if m > 2 else [])
        return [spec.sorted_strict(X)]

    def modifies(self, st, ctx):
        return (st.vars['self'].id,) + tuple(v.buf for k, v in st.heap[st.vars['self'].id].items() if isinstance(v, ArrV))

    def setup(self, mode, size, values=None):
        st = State()
        n1 = size[0]
        rec, A = self.make(st, 'self', n1, mode, values, 'a_')
        pre = self.wf(A)
        ctx = Ctx(mode=mode, A=A, rec=rec, argorder=[], n1=n1, check_self=True,
                  inputs={'a_' + k: ('array', 'a_' + k, A[k].n) for k in A},
                  argspec=[('obj', self.cls, {k: 'a_' + k for k in A})])
        ctx.old = {k: [A[k][i] for i in range(A[k].n)] for k in A}
        ctx.oldbuf = {k: st.heap[rec.id][k].buf for k in A}
        if self.func == 'add':
            n2 = size[1]
            rec2, Bf = self.make(st, 'f', n2, mode, values, 'b_')
            pre += self.wf(Bf) + [cmp('==', A['x'][0], Bf['x'][0]), cmp('==', A['x'][A['x'].n - 1], Bf['x'][Bf['x'].n - 1])]
            ctx.B = Bf
            ctx.oldB = {k: [Bf[k][i] for i in range(Bf[k].n)] for k in Bf}
            ctx.rec2 = rec2
            ctx.inputs.update({'b_' + k: ('array', 'b_' + k, Bf[k].n) for k in Bf})
            ctx.argspec.append(('obj', self.cls, {k: 'b_' + k for k in Bf}))
        if self.func == 'mul_scalar':
            ctx.fac = in_real('fac', values)
            st.vars['fac'] = ctx.fac
            ctx.inputs['fac'] = ('real', 'fac')
            ctx.argspec.append(('val', 'fac'))
        return st, pre, ctx

    def posts(self, st, ret, c):
        me = st.heap[c.rec.id]
        N = {k: st.acc(me[k]) for k in self.fields}
        out = []
        if self.func == 'mul_scalar':
            scaled = self.fields[1:] if self.kind != 'disc' else ('y',)
            for k in self.fields:
                exp = [arith('*', v, c.fac) for v in c.old[k]] if k in scaled else c.old[k]
                out.append(('field_' + k, band(cmp('==', N[k].n, len(exp)), *[cmp('==', N[k][i], split(exp[i])[0]) for i in range(len(exp))])))
            return out
        if self.func == 'copy':
            new = st.heap[ret.id]
            for k in self.fields:
                C = st.acc(new[k])
                out.append(('equal_' + k, band(cmp('==', C.n, len(c.old[k])), *[cmp('==', C[i], c.old[k][i]) for i in range(len(c.old[k]))])))
                out.append(('independent_' + k, new[k].buf != c.oldbuf[k]))
                out.append(('original_untouched_' + k, band(*[cmp('==', N[k][i], c.old[k][i]) for i in range(len(c.old[k]))])))
            return out
        if self.func == 'add':
            # the receiving object now holds the kernel's result for (old self, f): reuse the kernel contract's postcondition
            kc = self.kernel_contract()
            kctx = self.kernel_ctx(c, st)
            rv = tuple(me[k] for k in self.fields)
            for nm, f in kc.posts(st, rv, kctx):
                if nm == 'fresh_arrays':
                    # at method level the receiving object may keep an array of its OWN (e.g. an unchanged support); what
                    # C09 forbids is sharing storage with the OPERAND, which the no_aliasing clauses below state
                    continue
                out.append(('sum.' + nm, f))
            for k in self.fields:
                mine, theirs = me[k], st.heap[c.rec2.id][k]
                out.append(('no_aliasing_' + k, not (isinstance(mine, ArrV) and isinstance(theirs, ArrV) and mine.buf == theirs.buf)))
            for k in self.fields:
                Bk = st.acc(st.heap[c.rec2.id][k])
                out.append(('operand_unchanged_' + k, band(cmp('==', Bk.n, len(c.oldB[k])), *[cmp('==', Bk[i], c.oldB[k][i]) for i in range(len(c.oldB[k]))])))
            return out
        raise NotImplementedError(self.func)


class _ListAcc(object):
    def __init__(self, vals):
        self.v = vals
        self.n = len(vals)

    def __getitem__(self, k):
        return split(self.v[k])[0]


class PwcMethod(MethodBase):
    rel = 'pyspike/PieceWiseConstFunc.py'
    cls = 'PieceWiseConstFunc'
    kind, fields = 'pwc', ('x', 'y')

    def kernel_contract(self):
        return AddPwc()

    def kernel_ctx(self, c, st):
        return Ctx(mode='B', n1=len(c.old['y']), n2=len(c.oldB['y']), X1=_ListAcc(c.old['x']), Y1=_ListAcc(c.old['y']),
                   X2=_ListAcc(c.oldB['x']), Y2=_ListAcc(c.oldB['y']))


class PwlMethod(MethodBase):
    rel = 'pyspike/PieceWiseLinFunc.py'
    cls = 'PieceWiseLinFunc'
    kind, fields = 'pwl', ('x', 'y1', 'y2')

    def kernel_contract(self):
        return AddPwl()

    def kernel_ctx(self, c, st):
        A = {'x1': _ListAcc(c.old['x']), 'y11': _ListAcc(c.old['y1']), 'y12': _ListAcc(c.old['y2']),
             'x2': _ListAcc(c.oldB['x']), 'y21': _ListAcc(c.oldB['y1']), 'y22': _ListAcc(c.oldB['y2'])}
        return Ctx(mode='B', n1=len(c.old['y1']), n2=len(c.oldB['y1']), A=A, pc_hyp=getattr(c, 'pc_hyp', None))


class DiscMethod(MethodBase):
    rel = 'pyspike/DiscreteFunc.py'
    cls = 'DiscreteFunc'
    kind, fields = 'disc', ('x', 'y', 'mp')

    def kernel_contract(self):
        return AddDiscrete()

    def kernel_ctx(self, c, st):
        A = {'x1': _ListAcc(c.old['x']), 'y1': _ListAcc(c.old['y']), 'mp1': _ListAcc(c.old['mp']),
             'x2': _ListAcc(c.oldB['x']), 'y2': _ListAcc(c.oldB['y']), 'mp2': _ListAcc(c.oldB['mp'])}
        return Ctx(mode='B', n1=len(c.old['x']), n2=len(c.oldB['x']), A=A)


# ---------------------------------------------------------------------------------------------
class Reconcile(Contract):
    """C13: reconcile_spike_trains on a list of trains with arbitrary (unsorted, repeated) spike times and own edges"""
    rel = 'pyspike/spikes.py'
    func = 'reconcile_spike_trains'

    def setup(self, mode, size, values=None):
        st = State()
        trains = []
        pre = []
        info = []
        for k, n in enumerate(size):
            a, b = in_real('ts%d' % k, values), in_real('te%d' % k, values)
            sp = in_array(st, 'sp%d' % k, n, mode, values)
            rec = st.new_rec('SpikeTrain', {'__local__': False, 'spikes': sp, 't_start': a, 't_end': b})
            trains.append(rec)
            pre.append(cmp('<', a, b))
            info.append((st.acc(sp), a, b, sp))
        st.vars['spike_trains'] = trains
        inputs, objs = {}, []
        for k, n in enumerate(size):
            inputs.update({'sp%d' % k: ('array', 'sp%d' % k, info[k][0].n), 'ts%d' % k: ('real', 'ts%d' % k), 'te%d' % k: ('real', 'te%d' % k)})
            objs.append(dict(spikes='sp%d' % k, t_start='ts%d' % k, t_end='te%d' % k))
        ctx = Ctx(mode=mode, info=info, inputs=inputs, argorder=[], argspec=[('objlist', 'SpikeTrain', objs)])
        return st, pre, ctx

    def posts(self, st, ret, c):
        eps = Fraction(1, 1000000)
        tS = c.info[0][1]
        tE = c.info[0][2]
        for (_, a, b, _) in c.info[1:]:
            tS, tE = rmin(tS, a), rmax(tE, b)
        out = [('count', len(ret) == len(c.info))]
        for k, r in enumerate(ret):
            f = st.heap[r.id]
            S, a, b, sp = c.info[k]
            Rs = st.acc(f['spikes'])
            out.append(('edges[%d]' % k, band(cmp('==', f['t_start'], tS), cmp('==', f['t_end'], tE))))
            out.append(('fresh_object[%d]' % k, band(f.get('__local__', False) is True, f['spikes'].buf != sp.buf)))
            out.append(('strictly_increasing[%d]' % k, band(*[cmp('<', Rs[i], Rs[i + 1]) for i in range(Rs.n - 1)])))
            inside = lambda v: band(cmp('>', v, arith('-', tS, eps)), cmp('<', v, arith('+', tE, eps)))
            out.append(('nothing_else[%d]' % k, band(*[band(bor(*[cmp('==', Rs[i], S[j]) for j in range(S.n)]), inside(Rs[i])) for i in range(Rs.n)])))
            out.append(('every_input_inside_kept[%d]' % k, band(*[implies(inside(S[j]), bor(*[cmp('==', Rs[i], S[j]) for i in range(Rs.n)])) for j in range(S.n)])))
            out.append(('input_unchanged[%d]' % k, band(*[cmp('==', st.acc(sp)[j], S[j]) for j in range(S.n)])))
        return out


class Merge(Contract):
    rel = 'pyspike/spikes.py'
    func = 'merge_spike_trains'

    def setup(self, mode, size, values=None):
        st = State()
        t0, t1 = in_real('t_start', values), in_real('t_end', values)
        trains, info, pre = [], [], [cmp('<', t0, t1)]
        for k, n in enumerate(size):
            sp = in_array(st, 'sp%d' % k, n, mode, values)
            rec = st.new_rec('SpikeTrain', {'__local__': False, 'spikes': sp, 't_start': t0, 't_end': t1})
            trains.append(rec)
            S = st.acc(sp)
            pre.append(spec.valid_train(S, t0, t1, nonempty=False))
            info.append(S)
        st.vars['spike_trains'] = trains
        inputs = {'t_start': ('real', 't_start'), 't_end': ('real', 't_end')}
        objs = []
        for k, n in enumerate(size):
            inputs['sp%d' % k] = ('array', 'sp%d' % k, info[k].n)
            objs.append(dict(spikes='sp%d' % k, t_start='t_start', t_end='t_end'))
        return st, pre, Ctx(mode=mode, info=info, t0=t0, t1=t1, inputs=inputs, argorder=[], argspec=[('objlist', 'SpikeTrain', objs)])

    def posts(self, st, ret, c):
        f = st.heap[ret.id]
        Rs = st.acc(f['spikes'])
        allv = [S[j] for S in c.info for j in range(S.n)]
        out = [('interval', band(cmp('==', f['t_start'], c.t0), cmp('==', f['t_end'], c.t1))),
               ('count', cmp('==', Rs.n, len(allv))),
               ('sorted', band(*[cmp('<=', Rs[i], Rs[i + 1]) for i in range(Rs.n - 1)]))]
        # multiset equality: every value occurs equally often in input and output
        for v in allv:
            cin, cout = 0, 0
            for w in allv:
                cin = arith('+', cin, ite(cmp('==', w, v), 1, 0))
            for i in range(Rs.n):
                cout = arith('+', cout, ite(cmp('==', Rs[i], v), 1, 0))
            out.append(('multiset', cmp('==', cin, cout)))
        return out


class IsiLengths(Contract):
    """C15: isi_lengths of one valid train: interior ISIs once each, edge intervals by the stated rules"""
    rel = 'pyspike/isi_lengths.py'
    func = 'isi_lengths'

    def setup(self, mode, size, values=None):
        st = State()
        n = size[0]
        t0, t1 = in_real('t_start', values), in_real('t_end', values)
        sp = in_array(st, 'spike_times', n, mode, values)
        S = st.acc(sp)
        # default_thresh hands python lists (tolist()) to isi_lengths
        n = S.n
        st.vars.update(spike_times=[S[k] for k in range(n)], t_start=t0, t_end=t1)
        pre = [cmp('<', t0, t1), spec.valid_train(S, t0, t1, nonempty=False)]
        return st, pre, Ctx(mode=mode, n=n, S=S, t0=t0, t1=t1,
                            inputs=dict(spike_times=('array', 'spike_times', n), t_start=('real', 't_start'), t_end=('real', 't_end')),
                            argorder=['spike_times', 't_start', 't_end'])

    @staticmethod
    def expected(S, n, t0, t1):
        """list of ISI lengths from the C15 statement. Returned as list of (condition, value) alternatives per slot is
        awkward for a variable-length list, so the statement is phrased as: sum of squares and count"""
        if n == 0:
            return [(True, arith('-', t1, t0))]
        items = []
        first_edge = cmp('>', S[0], t0)          # an edge interval exists before the first spike
        last_edge = cmp('<', S[n - 1], t1)
        if n == 1:
            items.append((first_edge, arith('-', S[0], t0)))
            items.append((last_edge, arith('-', t1, S[0])))
            return items
        items.append((first_edge, rmax(arith('-', S[0], t0), arith('-', S[1], S[0]))))
        for k in range(n - 1):
            items.append((True, arith('-', S[k + 1], S[k])))
        items.append((last_edge, rmax(arith('-', t1, S[n - 1]), arith('-', S[n - 1], S[n - 2]))))
        return items

    def posts(self, st, ret, c):
        exp = self.expected(c.S, c.n, c.t0, c.t1)
        cnt, ssq = 0, 0
        for cond, v in exp:
            cnt = arith('+', cnt, ite(cond, 1, 0))
            ssq = arith('+', ssq, ite(cond, arith('*', v, v), 0))
        got_ssq = 0
        for v in ret:
            got_ssq = arith('+', got_ssq, arith('*', v, v))
        return [('count', cmp('==', len(ret), cnt)), ('sum_of_squares', cmp('==', split(got_ssq)[0], split(ssq)[0])),
                ('positive', band(*[cmp('>', split(v)[0], 0) for v in ret]))]


def model_isi_lengths(eng, args, kw, st, pc, node):
    """IsiLengths contract seen from default_thresh_ (the edge conditions are decided by the path condition or forked)"""
    vals, t0, t1 = args
    n = len(vals)

    class _A(object):
        pass
    S = _ListAcc(vals)
    out = []
    for cond, v in IsiLengths.expected(S, n, t0, t1):
        if eng.demand_bool(cond, pc):
            out.append(v)
    return out


class DefaultThresh(Contract):
    """C15: default_thresh_ = root mean square of the pooled ISI lengths; isi_lengths by its contract"""
    rel = 'pyspike/isi_lengths.py'
    func = 'default_thresh_'

    def call_models(self, mode):
        return {'isi_lengths': model_isi_lengths}

    def setup(self, mode, size, values=None):
        st = State()
        t0, t1 = in_real('t_start', values), in_real('t_end', values)
        lists, accs, pre = [], [], [cmp('<', t0, t1)]
        for k, n in enumerate(size):
            S = st.acc(in_array(st, 'tr%d' % k, n, mode, values))
            pre.append(spec.valid_train(S, t0, t1, nonempty=False))
            lists.append([S[i] for i in range(n)])
            accs.append(S)
        st.vars.update(train_list=lists, t_start=t0, t_end=t1)
        inputs = {'t_start': ('real', 't_start'), 't_end': ('real', 't_end')}
        inputs.update({'tr%d' % k: ('array', 'tr%d' % k, accs[k].n) for k in range(len(size))})
        return st, pre, Ctx(mode=mode, accs=accs, t0=t0, t1=t1, inputs=inputs, argorder=[],
                            argspec=[('listoflists', ['tr%d' % k for k in range(len(size))]), ('val', 't_start'), ('val', 't_end')])

    def posts(self, st, ret, c):
        cnt, ssq = 0, 0
        for S in c.accs:
            for cond, v in IsiLengths.expected(S, S.n, c.t0, c.t1):
                cnt = arith('+', cnt, ite(cond, 1, 0))
                ssq = arith('+', ssq, ite(cond, arith('*', v, v), 0))
        r, f = split(ret)
        return [('rms', band(cmp('>=', r, 0), cmp('==', arith('*', arith('*', r, r), cnt), ssq))), ('finite', f)]


class DefaultThreshTrains(DefaultThresh):
    """C15: default_thresh(list of SpikeTrain) = RMS of the pooled ISI lengths of exactly the given trains, a train
    without spikes contributing the recording length once; 0 for an empty list"""
    func = 'default_thresh'

    def call_models(self, mode):
        # nothing by contract: isi_lengths has a recorded defect on trains with spikes on the edges (known finding D11), so a
        # caller verified against its CONTRACT would not see what the real composition does; the callees are executed
        return {}

    def setup(self, mode, size, values=None):
        st = State()
        t0, t1 = in_real('t_start', values), in_real('t_end', values)
        trains, accs, objs, pre = [], [], [], [cmp('<', t0, t1)]
        inputs = {'t_start': ('real', 't_start'), 't_end': ('real', 't_end')}
        for k, n in enumerate(size):
            sp = in_array(st, 'tr%d' % k, n, mode, values)
            S = st.acc(sp)
            pre.append(spec.valid_train(S, t0, t1, nonempty=False))
            trains.append(st.new_rec('SpikeTrain', {'__local__': False, 'spikes': sp, 't_start': t0, 't_end': t1}))
            accs.append(S)
            inputs['tr%d' % k] = ('array', 'tr%d' % k, S.n)
            objs.append(dict(spikes='tr%d' % k, t_start='t_start', t_end='t_end'))
        st.vars.update(spike_train_list=trains)
        return st, pre, Ctx(mode=mode, accs=accs, t0=t0, t1=t1, inputs=inputs, argorder=[], argspec=[('objlist', 'SpikeTrain', objs)])

    def posts(self, st, ret, c):
        if not c.accs:
            return [('empty_list', cmp('==', split(ret)[0], 0))]
        return DefaultThresh.posts(self, st, ret, c)


class Psth(Contract):
    """C20: psth = piecewise-constant function on equally wide bins spanning the recording; bin value = number of spikes
    of all trains in the bin (last bin closed); values sum to the number of spikes inside the recording.
    Rests on the assumed contracts of np.linspace / np.histogram (or whatever the code uses to count)."""
    rel = 'pyspike/psth.py'
    func = 'psth'

    def setup(self, mode, size, values=None):
        st = State()
        nb = size[0]                      # number of bins selected by the bin size (made concrete by the precondition)
        t0, t1, bs = in_real('t_start', values), in_real('t_end', values), in_real('bin_size', values)
        trains, info, pre = [], [], [cmp('<', t0, t1), cmp('>', bs, 0)]
        T = arith('-', t1, t0)
        # int(T / bin_size) == nb
        pre += [cmp('<=', arith('*', bs, nb), T), cmp('<', T, arith('*', bs, nb + 1))]
        inputs = {'t_start': ('real', 't_start'), 't_end': ('real', 't_end'), 'bin_size': ('real', 'bin_size')}
        objs = []
        for k, n in enumerate(size[1:]):
            sp = in_array(st, 'sp%d' % k, n, mode, values)
            rec = st.new_rec('SpikeTrain', {'__local__': False, 'spikes': sp, 't_start': t0, 't_end': t1})
            trains.append(rec)
            S = st.acc(sp)
            pre.append(spec.valid_train(S, t0, t1, nonempty=False))
            info.append(S)
            inputs['sp%d' % k] = ('array', 'sp%d' % k, S.n)
            objs.append(dict(spikes='sp%d' % k, t_start='t_start', t_end='t_end'))
        st.vars.update(spike_trains=trains, bin_size=bs)
        return st, pre, Ctx(mode=mode, nb=nb, info=info, t0=t0, t1=t1, bs=bs, inputs=inputs, argorder=[],
                            argspec=[('objlist', 'SpikeTrain', objs), ('val', 'bin_size')])

    def posts(self, st, ret, c):
        f = st.heap[ret.id]
        X, Y = st.acc(f['x']), st.acc(f['y'])
        nb = c.nb
        allv = [S[j] for S in c.info for j in range(S.n)]
        w = arith('/', arith('-', c.t1, c.t0), nb)
        out = [('shape', band(cmp('==', X.n, nb + 1), cmp('==', Y.n, nb))),
               ('equal_bins', band(*[cmp('==', X[k], split(arith('+', c.t0, arith('*', w, k)))[0]) for k in range(nb)] + [cmp('==', X[nb], c.t1)]))]
        tot = 0
        for k in range(nb):
            cnt = 0
            for v in allv:
                inside = band(cmp('<=', X[k], v), cmp('<', v, X[k + 1]) if k < nb - 1 else cmp('<=', v, X[k + 1]))
                cnt = arith('+', cnt, ite(inside, 1, 0))
            out.append(('count[%d]' % k, cmp('==', Y[k], cnt)))
            tot = arith('+', tot, Y[k])
        out.append(('sum_is_number_of_spikes', cmp('==', tot, len(allv))))
        return out


class Poisson(Contract):
    """C20: generate_poisson_spikes for EVERY outcome of the random draws: the result is a SpikeTrain carrying the
    requested edges whose spikes are sorted, lie in [T_start, T_end) and are exactly the cumulative sums of the drawn
    intervals that fall before T_end.  np.random.exponential is an assumed contract (n finite draws >= 0, nothing else).
    Bounded: the number of initial draws N = max(1, int(1.2*rate*T)) is fixed by the size, and executions in which the
    'not enough spikes yet' loop runs more than `unroll_bound` times are not explored."""
    rel = 'pyspike/spikes.py'
    func = 'generate_poisson_spikes'

    def setup(self, mode, size, values=None):
        form, N, K = size
        self.unroll_bound = K
        st = State()
        rate = in_real('rate', values)
        pre = [cmp('>', rate, 0)]
        inputs = {'rate': ('real', 'rate'), '__draws__': ('draws',)}
        if form == 'pair':
            t0, t1 = in_real('T_start', values), in_real('T_end', values)
            interval = (t0, t1)
            inputs.update(T_start=('real', 'T_start'), T_end=('real', 'T_end'))
            argspec = [('val', 'rate'), ('tuple', ['T_start', 'T_end'])]
        else:
            t0, t1 = 0, in_real('T_end', values)
            interval = t1
            inputs.update(T_end=('real', 'T_end'))
            argspec = [('val', 'rate'), ('val', 'T_end')]
        pre.append(cmp('<', t0, t1))
        m = arith('*', arith('*', Fraction(6, 5), rate), arith('-', t1, t0))
        # N = max(1, int(1.2 * rate * T))
        pre += [cmp('<', m, N + 1)] + ([cmp('>=', m, N)] if N > 1 else [])
        st.vars.update(rate=rate, interval=interval)
        ctx = Ctx(mode=mode, N=N, t0=t0, t1=t1, rate=rate, inputs=inputs, argorder=[], argspec=argspec)
        ctx.draw_values = values.get('__draws__') if values is not None else None
        return st, pre, ctx

    def posts(self, st, ret, c):
        f = st.heap[ret.id]
        S = st.acc(f['spikes'])
        n = S.n
        # all draws made on this path, in order
        k = st.vars.get('__ndraws__', 0)
        draws = []
        for call in range(k):
            cnt = c.N if call == 0 else None
            i = 0
            while True:
                nm = 'draw%d_%d' % (call, i)
                if cnt is not None and i >= cnt:
                    break
                if cnt is None and i >= 1:          # N_append = max(1, int(0.1*rate*T)) = 1 for the sizes used (N <= 10)
                    break
                if c.draw_values is not None:
                    rec = c.draw_values[call] if call < len(c.draw_values) else []
                    draws.append(num(rec[i]) if i < len(rec) else 0)
                else:
                    draws.append(z3.Real(nm))
                i += 1
        cs, r = [], c.t0
        for d in draws:
            r = arith('+', r, d)
            cs.append(r)
        out = [('edges', band(cmp('==', f['t_start'], c.t0), cmp('==', f['t_end'], c.t1))),
               ('sorted', band(*[cmp('<=', S[i], S[i + 1]) for i in range(n - 1)])),
               ('inside', band(*[band(cmp('>=', S[i], c.t0), cmp('<', S[i], c.t1)) for i in range(n)])),
               ('enough_draws', bor(len(cs) == 0, cmp('>=', cs[-1], c.t1)) if cs else True)]
        # exactly the cumulative sums below T_end (they are non-decreasing, so these form a prefix)
        cnt = 0
        for v in cs:
            cnt = arith('+', cnt, ite(cmp('<', v, c.t1), 1, 0))
        out.append(('count', cmp('==', cnt, n)))
        for i in range(min(n, len(cs))):
            out.append(('cumulative[%d]' % i, cmp('==', S[i], cs[i])))
        return out
