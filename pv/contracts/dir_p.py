"""Inductive (unbounded) contract of the directionality scan, spike_directionality_profile_python /
spike_directionality_profiles_cython, in ADJACENT form (see sync_p.py): spike i of train 1 gets -1 if it is coincident
with the train-2 spike that precedes it, +1 if it is coincident with the train-2 spike that follows it before the next
train-1 spike, 0 if it is simultaneous with a train-2 spike or coincident with neither; symmetrically for train 2."""
import z3
from ..sym import *  # noqa
from ..engine import LoopSpec
from ..harness import Contract, Ctx, in_array, in_real
from .. import spec
from .sync import tau_spec, limit_of, model_get_tau


class DirProfileP(Contract):
    rel = 'pyspike/cython/directionality_python_backend.py'
    func = 'spike_directionality_profile_python'

    def __init__(self, rel=None, func=None):
        if rel:
            self.rel = rel
        if func:
            self.func = func
        self.loops = {1: LoopSpec(inv=[('range', self.inv_range), ('ghost', self.inv_ghost), ('merge', self.inv_merge),
                                       ('d1', self.inv_d1), ('d2', self.inv_d2)],
                                  init=self.ghost_init, step=self.ghost_step, ghost=('p1', 'p2', 'gi', 'gj'))}

    def call_models(self, mode):
        return {'get_tau': model_get_tau}

    def setup(self, mode, size, values=None):
        if mode != 'P':
            raise NotImplementedError("use DirectionalityProfile for the bounded mode")
        st = State()
        N1, N2 = z3.Int('N1'), z3.Int('N2')
        t0, t1, M, mt = in_real('t_start'), in_real('t_end'), in_real('MRTS'), in_real('max_tau')
        s1 = in_array(st, 'spikes1', N1, mode)
        s2 = in_array(st, 'spikes2', N2, mode)
        st.vars.update(spikes1=s1, spikes2=s2, t_start=t0, t_end=t1, MRTS=M, max_tau=mt)
        S1, S2 = st.acc(s1), st.acc(s2)
        pre = [t0 < t1, M >= 0, mt >= 0, spec.valid_train(S1, t0, t1, nonempty=False), spec.valid_train(S2, t0, t1, nonempty=False)]
        ctx = Ctx(mode=mode, N1=N1, N2=N2, t0=t0, t1=t1, M=M, mt=mt, S1=S1, S2=S2, lim=limit_of(mt, t0, t1), inputs={}, argorder=[])
        return st, pre, ctx

    # ghost: p1[i] = index of the last train-2 spike consumed strictly before spike i of train 1 was consumed (-1: none),
    #        p2[j] likewise; gi, gj = cursors at the previous loop head
    def ghost_init(self, st, c):
        st.vars['p1'] = z3.Const('p1_0', IARR)
        st.vars['p2'] = z3.Const('p2_0', IARR)
        st.vars['gi'] = z3.IntVal(-1)
        st.vars['gj'] = z3.IntVal(-1)

    def ghost_step(self, st, c):
        i, j, gi, gj = toI(st.vars['i']), toI(st.vars['j']), st.vars['gi'], st.vars['gj']
        st.vars['p1'] = z3.If(i == gi + 1, z3.Store(st.vars['p1'], i, gj), st.vars['p1'])
        st.vars['p2'] = z3.If(j == gj + 1, z3.Store(st.vars['p2'], j, gi), st.vars['p2'])
        st.vars['gi'], st.vars['gj'] = i, j

    def tau(self, c, a, b):
        return tau_spec(c.S1, c.S2, a, b, c.lim, c.M)

    # ---- final / partial values
    def val1(self, st, c, k, jcur):
        """value of d1[k] when train 2 has been consumed up to jcur (jcur = N2-1: final value)"""
        S1, S2 = c.S1, c.S2
        p = z3.Select(st.vars['p1'], k)
        tie = z3.And(p + 1 <= c.N2 - 1, S2[p + 1] == S1[k])
        prevc = z3.And(p >= 0, S1[k] - S2[p] < self.tau(c, k, p))
        nxt_first = z3.Or(k == c.N1 - 1, S2[p + 1] < S1[k + 1])         # the following train-2 spike comes before the next train-1 spike
        nextc = z3.And(p + 1 <= c.N2 - 1, z3.Not(tie), jcur >= p + 1, nxt_first, S2[p + 1] - S1[k] < self.tau(c, k, p + 1))
        return z3.If(tie, z3.RealVal(0), z3.If(nextc, z3.RealVal(1), z3.If(prevc, z3.RealVal(-1), z3.RealVal(0))))

    def val2(self, st, c, k, icur):
        S1, S2 = c.S1, c.S2
        p = z3.Select(st.vars['p2'], k)
        tie = z3.And(p + 1 <= c.N1 - 1, S1[p + 1] == S2[k])
        prevc = z3.And(p >= 0, S2[k] - S1[p] < self.tau(c, p, k))
        nxt_first = z3.Or(k == c.N2 - 1, S1[p + 1] < S2[k + 1])
        nextc = z3.And(p + 1 <= c.N1 - 1, z3.Not(tie), icur >= p + 1, nxt_first, S1[p + 1] - S2[k] < self.tau(c, p + 1, k))
        # train-2 spike k: +1 if it leads (its partner in train 1 follows), -1 if it follows
        return z3.If(tie, z3.RealVal(0), z3.If(nextc, z3.RealVal(1), z3.If(prevc, z3.RealVal(-1), z3.RealVal(0))))

    # ---- invariant
    def inv_range(self, st, c):
        i, j = st.vars['i'], st.vars['j']
        return z3.And(-1 <= i, i <= c.N1 - 1, -1 <= j, j <= c.N2 - 1, toI(st.vars['d1'].n) == c.N1, toI(st.vars['d2'].n) == c.N2,
                      st.vars['gi'] == i, st.vars['gj'] == j, st.vars['true_max'] == c.lim)

    def located(self, S, O, p, k, NO):
        """spike k of train S lies in (O[p], O[p+1]]  (right end included: simultaneous spikes)"""
        return z3.And(-1 <= p, p <= NO - 1, z3.Implies(p >= 0, O[p] < S[k]), z3.Implies(p < NO - 1, S[k] <= O[p + 1]))

    def inv_ghost(self, st, c):
        i, j = st.vars['i'], st.vars['j']
        p1, p2 = st.vars['p1'], st.vars['p2']
        return z3.And(forall(0, i + 1, lambda k: z3.And(self.located(c.S1, c.S2, z3.Select(p1, k), k, c.N2), z3.Select(p1, k) <= j)),
                      forall(0, j + 1, lambda k: z3.And(self.located(c.S2, c.S1, z3.Select(p2, k), k, c.N1), z3.Select(p2, k) <= i)))

    def inv_merge(self, st, c):
        """merge order: every unconsumed spike is later than every consumed one; ties are consumed together"""
        i, j = st.vars['i'], st.vars['j']
        S1, S2 = c.S1, c.S2
        return z3.And(z3.Implies(z3.And(i >= 0, j < c.N2 - 1), S2[j + 1] > S1[i]),
                      z3.Implies(z3.And(j >= 0, i < c.N1 - 1), S1[i + 1] > S2[j]))

    def inv_d1(self, st, c):
        i, j = st.vars['i'], st.vars['j']
        D1 = st.acc('d1')
        return z3.And(forall(0, i + 1, lambda k: D1[k] == self.val1(st, c, k, j)), forall(i + 1, c.N1, lambda k: D1[k] == 0))

    def inv_d2(self, st, c):
        i, j = st.vars['i'], st.vars['j']
        D2 = st.acc('d2')
        return z3.And(forall(0, j + 1, lambda k: D2[k] == self.val2(st, c, k, i)), forall(j + 1, c.N2, lambda k: D2[k] == 0))

    # ---- postcondition
    def posts(self, st, ret, c):
        d1, d2 = ret
        D1, D2 = st.acc(d1), st.acc(d2)
        p1, p2 = st.vars['p1'], st.vars['p2']
        return [('shape', z3.And(toI(D1.n) == c.N1, toI(D2.n) == c.N2)),
                ('located', z3.And(forall(0, c.N1, lambda k: self.located(c.S1, c.S2, z3.Select(p1, k), k, c.N2)),
                                   forall(0, c.N2, lambda k: self.located(c.S2, c.S1, z3.Select(p2, k), k, c.N1)))),
                ('d1', forall(0, c.N1, lambda k: D1[k] == self.val1(st, c, k, c.N2 - 1))),
                ('d2', forall(0, c.N2, lambda k: D2[k] == self.val2(st, c, k, c.N1 - 1)))]
