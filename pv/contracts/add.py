"""C09 / C11 contracts of the three add kernels (python_backend.py and extracted cython_add.pyx)."""
import z3
from ..sym import *  # noqa
from ..engine import LoopSpec
from ..harness import Contract, Ctx, in_array, in_real, in_int
from .. import spec


def pieces_setup(st, mode, size, values, xs, ys_list):
    """two piecewise functions: x arrays of n+1 breakpoints, value arrays of n pieces each"""
    if mode == 'B':
        n1, n2 = size
    else:
        n1, n2 = z3.Int('n1'), z3.Int('n2')
    arrs = {}
    for (xn, ynames, n) in ((xs[0], ys_list[0], n1), (xs[1], ys_list[1], n2)):
        arrs[xn] = in_array(st, xn, arith('+', n, 1), mode, values)
        for yn in ynames:
            arrs[yn] = in_array(st, yn, n, mode, values)
    st.vars.update(arrs)
    return n1, n2, arrs


def fresh_result(st, ret):
    """C09: the result never aliases an operand: every returned array is newly allocated (or a value-type expression)"""
    ok = True
    for a in ret:
        if isinstance(a, ArrV):
            ok = ok and bool(st.heap[a.buf].local)
    return ok


class AddPwc(Contract):
    rel = 'pyspike/cython/python_backend.py'
    func = 'add_piece_wise_const_python'

    def __init__(self, rel=None, func=None):
        if rel:
            self.rel = rel
        if func:
            self.func = func
        self.pyx = self.rel.endswith('.pyx')
        main = LoopSpec(inv=[('rng', self.inv_rng), ('cur', self.inv_cur), ('incr', self.inv_incr), ('seg', self.inv_seg)],
                        init=self.ghost_init, step=self.ghost_step, ghost=('c1', 'c2'))
        self.loops = {1: main}
        if self.pyx:
            self.loops[2] = LoopSpec(inv=[('tail', lambda st, c: self.inv_tail(st, c, 1))], init=self.tail_init)
            self.loops[3] = LoopSpec(inv=[('tail', lambda st, c: self.inv_tail(st, c, 2))], init=self.tail_init)

    def setup(self, mode, size, values=None):
        st = State()
        n1, n2, a = pieces_setup(st, mode, size, values, ('x1', 'x2'), (('y1',), ('y2',)))
        X1, Y1, X2, Y2 = st.acc(a['x1']), st.acc(a['y1']), st.acc(a['x2']), st.acc(a['y2'])
        if values is not None:
            n1, n2 = Y1.n, Y2.n
        pre = [cmp('>=', n1, 1), cmp('>=', n2, 1), spec.sorted_strict(X1), spec.sorted_strict(X2),
               cmp('==', X1[0], X2[0]), cmp('==', X1[n1], X2[n2]), cmp('==', X1.n, arith('+', Y1.n, 1)), cmp('==', X2.n, arith('+', Y2.n, 1))]
        ctx = Ctx(mode=mode, n1=n1, n2=n2, X1=X1, Y1=Y1, X2=X2, Y2=Y2,
                  inputs=dict(x1=('array', 'x1', arith('+', n1, 1)), y1=('array', 'y1', n1), x2=('array', 'x2', arith('+', n2, 1)), y2=('array', 'y2', n2)),
                  argorder=['x1', 'y1', 'x2', 'y2'])
        return st, pre, ctx

    # ---- main loop invariant
    def ghost_init(self, st, c):
        st.vars['c1'] = z3.Store(z3.Const('c1_0', IARR), 0, 0)
        st.vars['c2'] = z3.Store(z3.Const('c2_0', IARR), 0, 0)

    def ghost_step(self, st, c):
        ix = st.vars['index']
        st.vars['c1'] = z3.Store(st.vars['c1'], ix, toI(st.vars['index1']))
        st.vars['c2'] = z3.Store(st.vars['c2'], ix, toI(st.vars['index2']))

    def seg(self, st, c, k):
        c1, c2 = z3.Select(st.vars['c1'], k), z3.Select(st.vars['c2'], k)
        xn, yn = st.acc('x_new'), st.acc('y_new')
        return z3.And(0 <= c1, c1 < c.n1, 0 <= c2, c2 < c.n2, yn[k] == c.Y1[c1] + c.Y2[c2],
                      c.X1[c1] <= xn[k], c.X2[c2] <= xn[k],
                      z3.Or(xn[k] == c.X1[c1], xn[k] == c.X2[c2]))

    def seg_right(self, st, c, k):
        c1, c2 = z3.Select(st.vars['c1'], k), z3.Select(st.vars['c2'], k)
        xn = st.acc('x_new')
        return z3.And(xn[k + 1] <= c.X1[c1 + 1], xn[k + 1] <= c.X2[c2 + 1])

    def inv_rng(self, st, c):
        i1, i2, ix = st.vars['index1'], st.vars['index2'], st.vars['index']
        return z3.And(0 <= i1, i1 < c.n1, 0 <= i2, i2 < c.n2, 0 <= ix, ix <= i1 + i2,
                      toI(st.vars['x_new'].n) == c.n1 + c.n2 + 2, toI(st.vars['y_new'].n) == c.n1 + c.n2 + 1)

    def inv_cur(self, st, c):
        i1, i2, ix = st.vars['index1'], st.vars['index2'], st.vars['index']
        xn = st.acc('x_new')
        return z3.And(xn[ix] == rmax(c.X1[i1], c.X2[i2]), c.X1[i1 + 1] > xn[ix], c.X2[i2 + 1] > xn[ix], xn[0] == c.X1[0],
                      z3.Select(st.vars['c1'], ix) == i1, z3.Select(st.vars['c2'], ix) == i2)

    def inv_incr(self, st, c):
        ix = st.vars['index']
        xn = st.acc('x_new')
        return forall(0, ix, lambda k: xn[k] < xn[k + 1])

    def inv_seg(self, st, c):
        ix = st.vars['index']
        return z3.And(forall(0, ix + 1, lambda k: self.seg(st, c, k)), forall(0, ix, lambda k: self.seg_right(st, c, k)))

    # ---- tail loops of the Cython version:  for i in range(N-index-2): y_new[index+1+i] = yA[indexA+1+i] + yB[last]
    def tail_init(self, st, c):
        st.vars['y_at_tail'] = st.heap[st.vars['y_new'].buf].data   # ghost snapshot of y_new before the tail loop

    def inv_tail(self, st, c, which):
        i = st.vars['i']
        ix = st.vars['index']
        yn = st.acc('y_new')
        snap = st.vars['y_at_tail']
        if which == 1:
            iA, YA, nA, YB, nB = st.vars['index1'], c.Y1, c.n1, c.Y2, c.n2
        else:
            iA, YA, nA, YB, nB = st.vars['index2'], c.Y2, c.n2, c.Y1, c.n1
        return z3.And(0 <= i, i <= nA + 1 - iA - 2,
                      forall(ix + 1, ix + 1 + i, lambda q: yn[q] == YA[q - ix + iA] + YB[nB - 1]),
                      forall(0, ix + 1, lambda k: yn[k] == z3.Select(snap, k)))

    # ---- postcondition (C09: pointwise sum on the merged support)
    def posts(self, st, ret, c):
        x, y = ret
        X, Y = st.acc(x), st.acc(y)
        n = Y.n
        out = [('shape', band(cmp('==', X.n, arith('+', n, 1)), cmp('>=', n, 1), cmp('==', X[0], c.X1[0]), cmp('==', X[n], c.X1[c.n1]))),
               ('incr', forall(0, n, lambda k: cmp('<', X[k], X[k + 1])))]

        def val(k):
            return exists(0, c.n1, lambda a: exists(0, c.n2, lambda b: band(
                cmp('==', Y[k], arith('+', c.Y1[a], c.Y2[b])),
                cmp('<=', c.X1[a], X[k]), cmp('<=', X[k + 1], c.X1[a + 1]),
                cmp('<=', c.X2[b], X[k]), cmp('<=', X[k + 1], c.X2[b + 1])), name='b'), name='a')
        out.append(('val', forall(0, n, val)))
        out.append(('fresh_arrays', fresh_result(st, ret)))
        # every result breakpoint is a breakpoint of an operand
        out.append(('member', forall(0, arith('+', n, 1), lambda k: bor(exists(0, arith('+', c.n1, 1), lambda a: cmp('==', X[k], c.X1[a]), name='a'),
                                                                        exists(0, arith('+', c.n2, 1), lambda b: cmp('==', X[k], c.X2[b]), name='b')))))
        return out


class AddDiscrete(Contract):
    """C11: add_discrete_function_python / _cython. x arrays: edge, events..., edge."""
    rel = 'pyspike/cython/python_backend.py'
    func = 'add_discrete_function_python'

    def __init__(self, rel=None, func=None):
        if rel:
            self.rel = rel
        if func:
            self.func = func

    def setup(self, mode, size, values=None):
        if mode != 'B':
            raise NotImplementedError
        st = State()
        e1, e2 = size            # number of events (entries strictly between the two edge entries)
        names = ['x1', 'y1', 'mp1', 'x2', 'y2', 'mp2']
        a = {}
        for nm, n in zip(names, [e1 + 2] * 3 + [e2 + 2] * 3):
            a[nm] = in_array(st, nm, n, mode, values)
        st.vars.update(a)
        A = {k: st.acc(v) for k, v in a.items()}
        n1, n2 = A['x1'].n, A['x2'].n
        pre = [cmp('==', A['y1'].n, n1), cmp('==', A['mp1'].n, n1), cmp('==', A['y2'].n, n2), cmp('==', A['mp2'].n, n2),
               cmp('==', A['x1'][0], A['x2'][0]), cmp('==', A['x1'][n1 - 1], A['x2'][n2 - 1]), cmp('<', A['x1'][0], A['x1'][n1 - 1])]
        for x, n in ((A['x1'], n1), (A['x2'], n2)):
            # events strictly increasing, inside the closed interval (events on the edges allowed)
            pre += [cmp('<', x[k], x[k + 1]) for k in range(1, n - 2)]
            pre += [cmp('<=', x[0], x[1]), cmp('<=', x[n - 2], x[n - 1])] if n > 2 else []
        ctx = Ctx(mode=mode, n1=n1, n2=n2, A=A, inputs={nm: ('array', nm, a[nm].n) for nm in names}, argorder=names)
        return st, pre, ctx

    def posts(self, st, ret, c):
        x, y, mp = ret
        X, Y, MP = st.acc(x), st.acc(y), st.acc(mp)
        A = c.A
        n = X.n
        out = [('shape', band(cmp('==', Y.n, n), cmp('==', MP.n, n), cmp('>=', n, 2), cmp('==', X[0], A['x1'][0]),
                              cmp('==', X[n - 1], A['x1'][c.n1 - 1]))), ('fresh_arrays', fresh_result(st, ret))]
        if not isinstance(n, int) or n < 2:
            return out
        ev = range(1, n - 1)
        out.append(('incr', band(*[cmp('<', X[k], X[k + 1]) for k in range(1, n - 2)])))
        ev1, ev2 = range(1, c.n1 - 1), range(1, c.n2 - 1)
        out.append(('all_events_present', band(*([bor(*[cmp('==', X[k], A['x1'][i]) for k in ev]) for i in ev1] +
                                                 [bor(*[cmp('==', X[k], A['x2'][j]) for k in ev]) for j in ev2]))))
        for k in ev:
            in1 = [cmp('==', X[k], A['x1'][i]) for i in ev1]
            in2 = [cmp('==', X[k], A['x2'][j]) for j in ev2]
            out.append(('is_event[%d]' % k, bor(*(in1 + in2))))
            vy, vm = 0, 0
            for i, hit in zip(ev1, in1):
                vy = arith('+', vy, ite(hit, A['y1'][i], 0))
                vm = arith('+', vm, ite(hit, A['mp1'][i], 0))
            for j, hit in zip(ev2, in2):
                vy = arith('+', vy, ite(hit, A['y2'][j], 0))
                vm = arith('+', vm, ite(hit, A['mp2'][j], 0))
            out.append(('y[%d]' % k, cmp('==', Y[k], vy)))
            out.append(('mp[%d]' % k, cmp('==', MP[k], vm)))
        return out


class AddPwl(Contract):
    """C09: add_piece_wise_lin_python / _cython: on every result piece both one-sided limits are the sums of the
    operands' linearly interpolated values"""
    rel = 'pyspike/cython/python_backend.py'
    func = 'add_piece_wise_lin_python'

    def __init__(self, rel=None, func=None):
        if rel:
            self.rel = rel
        if func:
            self.func = func

    def setup(self, mode, size, values=None):
        if mode != 'B':
            raise NotImplementedError
        st = State()
        n1, n2, a = pieces_setup(st, mode, size, values, ('x1', 'x2'), (('y11', 'y12'), ('y21', 'y22')))
        A = {k: st.acc(v) for k, v in a.items()}
        n1, n2 = A['y11'].n, A['y21'].n
        pre = [cmp('>=', n1, 1), cmp('>=', n2, 1), spec.sorted_strict(A['x1']), spec.sorted_strict(A['x2']),
               cmp('==', A['x1'][0], A['x2'][0]), cmp('==', A['x1'][n1], A['x2'][n2]),
               cmp('==', A['x1'].n, n1 + 1), cmp('==', A['x2'].n, n2 + 1), cmp('==', A['y12'].n, n1), cmp('==', A['y22'].n, n2)]
        names = ['x1', 'y11', 'y12', 'x2', 'y21', 'y22']
        ctx = Ctx(mode=mode, n1=n1, n2=n2, A=A, inputs={nm: ('array', nm, a[nm].n) for nm in names}, argorder=names)
        return st, pre, ctx

    @staticmethod
    def interp(x0, x1, y0, y1, x):
        return arith('+', y0, arith('/', arith('*', arith('-', y1, y0), arith('-', x, x0)), arith('-', x1, x0)))

    def posts(self, st, ret, c):
        from ..harness import entailed
        x, y1, y2 = ret
        X, YA, YB = st.acc(x), st.acc(y1), st.acc(y2)
        A = c.A
        n = YA.n
        out = [('shape', band(cmp('==', X.n, n + 1), cmp('==', YB.n, n), cmp('>=', n, 1), cmp('==', X[0], A['x1'][0]), cmp('==', X[n], A['x1'][c.n1]))),
               ('incr', band(*[cmp('<', X[k], X[k + 1]) for k in range(n)])),
               ('fresh_arrays', fresh_result(st, ret)),
               ('finite', band(*[band(YA.fin(k), YB.fin(k)) for k in range(n)])),
               ('member', band(*[bor(*([cmp('==', X[k], A['x1'][a]) for a in range(c.n1 + 1)] + [cmp('==', X[k], A['x2'][b]) for b in range(c.n2 + 1)]))
                                 for k in range(n + 1)]))]
        hyp = getattr(c, 'pc_hyp', None)

        def cands(xs, m, k):
            if hyp is not None:
                for g in range(m):
                    if entailed(hyp, band(cmp('<=', xs[g], X[k]), cmp('<=', X[k + 1], xs[g + 1]))):
                        return [g]
            return list(range(m))
        for k in range(n):
            alts = []
            for a in cands(A['x1'], c.n1, k):
                for b in cands(A['x2'], c.n2, k):
                    f1 = lambda t: self.interp(A['x1'][a], A['x1'][a + 1], A['y11'][a], A['y12'][a], t)
                    f2 = lambda t: self.interp(A['x2'][b], A['x2'][b + 1], A['y21'][b], A['y22'][b], t)
                    alts.append(band(cmp('<=', A['x1'][a], X[k]), cmp('<=', X[k + 1], A['x1'][a + 1]),
                                     cmp('<=', A['x2'][b], X[k]), cmp('<=', X[k + 1], A['x2'][b + 1]),
                                     cmp('==', YA[k], split(arith('+', f1(X[k]), f2(X[k])))[0]),
                                     cmp('==', YB[k], split(arith('+', f1(X[k + 1]), f2(X[k + 1])))[0])))
            out.append(('val[%d]' % k, bor(*alts)))
        return out
