"""C02 contracts: get_min_dist, dist_at_t and the SPIKE-profile kernel (python_backend.py and the
extracted cython_profiles.pyx / cython_distances.pyx)."""
import z3
from ..sym import *  # noqa
from ..engine import LoopSpec
from ..harness import Contract, Ctx, in_array, in_real, in_int
from .. import spec


# ---------------------------------------------------------------------------------------------
# spec functions

def dist(a, b):
    return rabs(arith('-', a, b))


OPAQUE = dict(on=False, table={}, facts=[])


def set_opaque(on):
    OPAQUE['on'] = on
    OPAQUE['table'] = {}
    OPAQUE['facts'] = []


_SIMP = {}


def _tid(x):
    """identity of a term modulo z3's simplifier (so 2*a-b and a-(b-a) get the same opaque constant)"""
    if not is_z3(x):
        return ('c', x)
    k = x.get_id()
    if k not in _SIMP:
        _SIMP[k] = (x, z3.simplify(x, som=True, sort_sums=True))
    return _SIMP[k][1].get_id()


def mindist(tau, T, a0, a1):
    """nearest-spike distance of time tau to train T incl. its auxiliary spikes a0, a1 (T.n concrete).
    With OPAQUE on, the value is an uninterpreted constant per distinct (tau, train, aux) carrying only the facts
    md >= 0 and md <= |tau - e| for every member e (sound weakening; used first, full definition as fall-back)."""
    if OPAQUE['on'] and any(is_z3(x) for x in [tau, a0, a1] + [T[k] for k in range(T.n)]):
        key = (_tid(tau), tuple(_tid(T[k]) for k in range(T.n)), _tid(a0), _tid(a1))
        if key not in OPAQUE['table']:
            m = z3.Real('md!%d' % len(OPAQUE['table']))
            fs = []
            for k2, (m2, tau2) in OPAQUE['table'].items():
                if k2[1:] == key[1:]:
                    fs.append(z3.Implies(toR(tau2) == toR(tau), m2 == m))     # md is a function of tau
            OPAQUE['table'][key] = (m, tau)
            fs += [m >= 0, m <= dist(tau, a0), m <= dist(a1, tau)] + [m <= dist(tau, T[k]) for k in range(T.n)]
            OPAQUE['facts'].extend(fs)
        return OPAQUE['table'][key][0]
    d = dist(tau, a0)
    for k in range(T.n):
        d = rmin(d, dist(tau, T[k]))
    return rmin(d, dist(a1, tau))


def aux0(T, t0):
    """auxiliary spike before the start: mirror of the second spike about the first, at most t_start"""
    if T.n > 1:
        return rmin(t0, T[0] - (T[1] - T[0]))
    return t0


def aux1(T, t1):
    N = T.n
    if N > 1:
        return rmax(t1, T[N - 1] + (T[N - 1] - T[N - 2]))
    return t1


def D(isi1, isi2, s1, s2, M, RI):
    """C02: instantaneous dissimilarity from the two current ISIs and the two interpolated nearest-spike distances"""
    mean = arith('*', Fraction(1, 2), arith('+', isi1, isi2))
    lim = rmax(M, mean)
    if RI is True:
        return arith('/', arith('*', Fraction(1, 2), arith('+', s1, s2)), lim)
    if RI is False:
        return arith('/', arith('*', Fraction(1, 2), arith('+', arith('*', s1, isi2), arith('*', s2, isi1))),
                     arith('*', mean, lim))
    return ite(RI, D(isi1, isi2, s1, s2, M, True), D(isi1, isi2, s1, s2, M, False))


# ---------------------------------------------------------------------------------------------
class GetMinDist(Contract):
    rel = 'pyspike/cython/python_backend.py'
    func = 'get_min_dist'

    def __init__(self, rel=None, func=None, with_n=False):
        if rel:
            self.rel = rel
        if func:
            self.func = func
        self.with_n = with_n
        self.loops = {1: LoopSpec(inv=[('rng', self.inv_rng), ('d', self.inv_d), ('min', self.inv_min)],
                                  init=self.ghost_init, ghost=())}

    def setup(self, mode, size, values=None):
        st = State()
        N = in_int('N', mode, size[0] if size else None, values)
        tau, a0, a1 = in_real('spike_time', values), in_real('t_start', values), in_real('t_end', values)
        tr = in_array(st, 'spike_train', N, mode, values)
        if values is not None:
            N = tr.n
        T = st.acc(tr)
        if values is not None and 'start_index' in values:
            si = int(values['start_index'])
        elif mode == 'B':
            si = size[1]
        else:
            si = z3.Int('start_index')
        st.vars.update(spike_time=tau, spike_train=tr, start_index=si, t_start=a0, t_end=a1)
        if self.with_n:
            st.vars['N'] = N
        pre = [cmp('>=', N, 0), spec.sorted_strict(T, N), cmp('<=', a0, a1),
               forall(0, N, lambda k: band(cmp('<=', a0, T[k]), cmp('<=', T[k], a1))),
               cmp('>=', si, -1), bor(cmp('<', si, N), cmp('<=', si, 0)),
               bor(cmp('<=', si, 0), cmp('<=', spec.sel_guard(T, si), tau) if not (isinstance(si, int) and isinstance(N, int) and not (0 <= si < N)) else False)]
        inputs = dict(spike_time=('real', 'spike_time'), spike_train=('array', 'spike_train', N),
                      start_index=('const', si) if isinstance(si, int) else ('int', 'start_index'),
                      t_start=('real', 't_start'), t_end=('real', 't_end'))
        order = ['spike_time', 'spike_train', 'start_index', 't_start', 't_end']
        if self.with_n:
            inputs['N'] = ('const', N) if isinstance(N, int) else ('int', 'N')
            order = ['spike_time', 'spike_train', 'N', 'start_index', 't_start', 't_end']
        ctx = Ctx(mode=mode, N=N, tau=tau, a0=a0, a1=a1, T=T, si_in=si, inputs=inputs, argorder=order)
        return st, pre, ctx

    def ghost_init(self, st, c):
        st.vars['si0'] = st.vars['start_index']

    def inv_rng(self, st, c):
        si, si0 = st.vars['start_index'], st.vars['si0']
        return z3.And(toI(si0) == z3.If(toI(c.si_in) < 0, 0, toI(c.si_in)), toI(si0) <= si,
                      si <= z3.If(toI(c.N) > toI(si0), toI(c.N), toI(si0)))

    def inv_d(self, st, c):
        si, si0, d = st.vars['start_index'], toI(st.vars['si0']), st.vars['d']
        return z3.And(z3.Implies(si == si0, d == dist(c.tau, c.a0)), z3.Implies(si > si0, d == dist(c.tau, c.T[si - 1])),
                      d <= dist(c.tau, c.a0))

    def inv_min(self, st, c):
        si, si0, d = st.vars['start_index'], toI(st.vars['si0']), st.vars['d']
        return z3.And(forall(si0, si, lambda k: d <= dist(c.tau, c.T[k])),
                      z3.Implies(si > si0, forall(0, si0, lambda k: d <= dist(c.tau, c.T[k]))))

    def posts(self, st, ret, c):
        v = split(ret)[0]
        if isinstance(c.N, int):
            return [('is_min', cmp('==', v, mindist(c.tau, c.T, c.a0, c.a1)))]
        return [('lower', z3.And(v <= dist(c.tau, c.a0), v <= dist(c.tau, c.a1), forall(0, c.N, lambda k: v <= dist(c.tau, c.T[k])))),
                ('attained', z3.Or(v == dist(c.tau, c.a0), v == dist(c.tau, c.a1),
                                   exists(0, c.N, lambda k: v == dist(c.tau, c.T[k]))))]


class DistAtT(Contract):
    rel = 'pyspike/cython/python_backend.py'
    func = 'dist_at_t'

    def __init__(self, rel=None):
        if rel:
            self.rel = rel

    def setup(self, mode, size, values=None):
        st = State()
        RI = size[0] if size else False
        if values is not None and 'RI' in values:
            RI = bool(values['RI'])
        names = ['isi1', 'isi2', 's1', 's2', 'MRTS']
        v = {n: in_real(n, values) for n in names}
        st.vars.update(v)
        st.vars['RI'] = RI
        pre = [cmp('>=', v['isi1'], 0), cmp('>=', v['isi2'], 0), cmp('>=', v['s1'], 0), cmp('>=', v['s2'], 0), cmp('>=', v['MRTS'], 0)]
        inputs = {n: ('real', n) for n in names}
        inputs['RI'] = ('const', RI)
        ctx = Ctx(mode=mode, RI=RI, inputs=inputs, argorder=names + ['RI'], **v)
        return st, pre, ctx

    def posts(self, st, ret, c):
        t, f = split(ret)
        e = D(c.isi1, c.isi2, c.s1, c.s2, c.MRTS, c.RI)
        den_ok = cmp('>', arith('+', c.isi1, c.isi2), 0)
        return [('value', cmp('==', t, split(e)[0])), ('finite_if_den', implies(den_ok, f)),
                ('nonneg', implies(den_ok, cmp('>=', t, 0)))]


# ---------------------------------------------------------------------------------------------
def model_get_min_dist(with_n=False):
    """call model = the GetMinDist contract seen from a caller (bounded mode: the canonical n-ary min)"""
    def m(eng, args, kw, st, pc, node):
        if with_n:
            tau, train, N, start, a0, a1 = args
        else:
            tau, train, start, a0, a1 = args
            N = train.n
        T = st.acc(train)
        tau = eng.need_finite(tau, pc, 'get_min_dist.arg', node)
        a0 = eng.need_finite(a0, pc, 'get_min_dist.arg', node)
        a1 = eng.need_finite(a1, pc, 'get_min_dist.arg', node)
        # precondition of the callee contract
        pre = band(cmp('>=', start, -1), bor(cmp('<', start, N), cmp('<=', start, 0)), cmp('==', N, train.n),
                   bor(cmp('<=', start, 0), cmp('<=', spec.sel_guard(T, start), tau)
                       if not (isinstance(start, int) and isinstance(N, int) and not (0 <= start < N)) else False))
        eng.oblige("call.get_min_dist.pre@%d" % node.lineno, pc, pre, kind='call')
        if isinstance(train.n, int):
            return mindist(tau, T, a0, a1)
        d = fresh('gmd', R)
        pc.assume(z3.And(d <= dist(tau, a0), d <= dist(tau, a1), forall(0, train.n, lambda k: d <= dist(tau, T[k]))))
        pc.assume(z3.Or(d == dist(tau, a0), d == dist(tau, a1), exists(0, train.n, lambda k: d == dist(tau, T[k]))))
        return d
    return m


def model_dist_at_t(eng, args, kw, st, pc, node):
    isi1, isi2, s1, s2, M, RI = args
    if not isinstance(RI, bool):
        if isinstance(RI, int):
            RI = bool(RI)
    # dist_at_t is total over IEEE doubles; its contract: value = D(...), finite iff the denominators are non-zero
    # (the finiteness flag is produced by the divisions inside D)
    return D(isi1, isi2, s1, s2, M, RI)


# ---------------------------------------------------------------------------------------------
class SpikeProfile(Contract):
    rel = 'pyspike/cython/python_backend.py'
    func = 'spike_distance_python'
    opaque = staticmethod(set_opaque)

    def extra_facts(self):
        return list(OPAQUE['facts'])

    def __init__(self, rel=None, func=None, names=('spikes1', 'spikes2')):
        if rel:
            self.rel = rel
        if func:
            self.func = func
        self.names = names
        self.pyx = self.rel.endswith('.pyx')

    def call_models(self, mode):
        if self.pyx:
            return {'get_min_dist_cython': model_get_min_dist(True), 'dist_at_t': model_dist_at_t}
        return {'get_min_dist': model_get_min_dist(False), 'dist_at_t': model_dist_at_t}

    def setup(self, mode, size, values=None):
        st = State()
        if mode != 'B':
            raise NotImplementedError
        N1, N2, RI = size
        if values is not None:
            RI = bool(values.get('RI', RI))
        t0, t1, M = in_real('t_start', values), in_real('t_end', values), in_real('MRTS', values)
        a, b = self.names
        s1 = in_array(st, a, N1, mode, values)
        s2 = in_array(st, b, N2, mode, values)
        N1, N2 = s1.n, s2.n
        st.vars.update({a: s1, b: s2, 't_start': t0, 't_end': t1, 'MRTS': M, 'RI': RI})
        S1, S2 = st.acc(s1), st.acc(s2)
        pre = [cmp('<', t0, t1), cmp('>=', M, 0), spec.valid_train(S1, t0, t1), spec.valid_train(S2, t0, t1)]
        ctx = Ctx(mode=mode, N1=N1, N2=N2, t0=t0, t1=t1, M=M, RI=RI, S1=S1, S2=S2,
                  inputs={a: ('array', a, N1), b: ('array', b, N2), 't_start': ('real', 't_start'),
                          't_end': ('real', 't_end'), 'MRTS': ('real', 'MRTS'), 'RI': ('const', RI)},
                  argorder=[a, b, 't_start', 't_end', 'MRTS', 'RI'])
        return st, pre, ctx

    # one train's contribution on the open segment (xl, xr) when its spike interval g covers it
    @staticmethod
    def contrib(T, O, g, t0, t1, xl, xr):
        N = T.n
        oa0, oa1 = aux0(O, t0), aux1(O, t1)
        md = lambda i: mindist(T[i], O, oa0, oa1)
        if g == -1:
            return md(0), md(0), spec.nu(T, -1, t0, t1)
        if g == N - 1:
            return md(N - 1), md(N - 1), spec.nu(T, N - 1, t0, t1)
        tp, tf = T[g], T[g + 1]
        L = tf - tp
        sl = arith('/', arith('+', arith('*', md(g), tf - xl), arith('*', md(g + 1), xl - tp)), L)
        sr = arith('/', arith('+', arith('*', md(g), tf - xr), arith('*', md(g + 1), xr - tp)), L)
        return sl, sr, L

    def posts(self, st, ret, c):
        x, ys, ye = ret
        X, YS, YE = st.acc(x), st.acc(ys), st.acc(ye)
        n = YS.n
        out = [('shape', band(cmp('==', X.n, n + 1), cmp('==', YE.n, n), cmp('>=', n, 1), cmp('==', X[0], c.t0), cmp('==', X[n], c.t1))),
               ('incr', forall(0, n, lambda k: cmp('<', X[k], X[k + 1]))),
               ('member', forall(1, n, lambda k: bor(*([cmp('==', X[k], c.S1[i]) for i in range(c.N1)] +
                                                       [cmp('==', X[k], c.S2[j]) for j in range(c.N2)])))),
               ('nospike', forall(0, n, lambda k: band(
                   *([bnot(band(cmp('<', X[k], c.S1[i]), cmp('<', c.S1[i], X[k + 1]))) for i in range(c.N1)] +
                     [bnot(band(cmp('<', X[k], c.S2[j]), cmp('<', c.S2[j], X[k + 1]))) for j in range(c.N2)])))),
               ('finite', forall(0, n, lambda k: band(YS.fin(k), YE.fin(k))))]

        from ..harness import entailed
        hyp = getattr(c, 'pc_hyp', None)

        def cover_candidates(T, N, k):
            """cover indices of segment k that the path condition entails (unique when it exists); else all"""
            if hyp is not None:
                for g in range(-1, N):
                    if entailed(hyp, spec.covers(T, g, X[k], X[k + 1])):
                        return [g]
            return list(range(-1, N))

        def seg(k):
            alts = []
            for a in cover_candidates(c.S1, c.N1, k):
                for b in cover_candidates(c.S2, c.N2, k):
                    s1l, s1r, i1 = self.contrib(c.S1, c.S2, a, c.t0, c.t1, X[k], X[k + 1])
                    s2l, s2r, i2 = self.contrib(c.S2, c.S1, b, c.t0, c.t1, X[k], X[k + 1])
                    yl = split(D(i1, i2, s1l, s2l, c.M, c.RI))[0]
                    yr = split(D(i1, i2, s1r, s2r, c.M, c.RI))[0]
                    alts.append(band(spec.covers(c.S1, a, X[k], X[k + 1]), spec.covers(c.S2, b, X[k], X[k + 1]),
                                     cmp('>', i1, 0), cmp('>', i2, 0),
                                     cmp('==', YS[k], yl), cmp('==', YE[k], yr)))
            return bor(*alts)
        for k in range(n):
            out.append(('vals[%d]' % k, seg(k)))
        return out
