"""Inductive (unbounded) contract of the SPIKE-Sync profile scan, coincidence_python / coincidence_profile_cython,
in ADJACENT form: an event is marked iff its spike is coincident with the other train's spike that immediately
precedes it or with the one that immediately follows it in the merged order.  The bridge to the pairwise definition of
C03 (coincident pairs are adjacent, coincidence is one-to-one) is proved separately as lemmas (lemmas.window)."""
import z3
from ..sym import *  # noqa
from ..engine import LoopSpec
from ..harness import Contract, Ctx, in_array, in_real
from .. import spec
from .sync import tau_spec, limit_of, model_get_tau


class SyncProfileP(Contract):
    rel = 'pyspike/cython/python_backend.py'
    func = 'coincidence_python'
    kind = 'sync'          # 'sync': marks 1/1, shared 2 ; 'order': marks -1/+1 by who leads, shared 0
    val = 'c'

    def __init__(self, rel=None, func=None, kind='sync', val='c'):
        if rel:
            self.rel = rel
        if func:
            self.func = func
        self.kind, self.val = kind, val
        self.loops = {1: LoopSpec(inv=[('range', self.inv_range), ('cursor', self.inv_cursor), ('events', self.inv_events),
                                       ('incr', self.inv_incr), ('marks', self.inv_marks), ('rest', self.inv_rest)],
                                  init=self.ghost_init, step=self.ghost_step, ghost=('ei', 'ej'))}

    def call_models(self, mode):
        return {'get_tau': model_get_tau}

    def setup(self, mode, size, values=None):
        if mode != 'P':
            raise NotImplementedError("use DiscreteProfile for the bounded mode")
        st = State()
        N1, N2 = z3.Int('N1'), z3.Int('N2')
        t0, t1, M, mt = in_real('t_start'), in_real('t_end'), in_real('MRTS'), in_real('max_tau')
        s1 = in_array(st, 'spikes1', N1, mode)
        s2 = in_array(st, 'spikes2', N2, mode)
        st.vars.update(spikes1=s1, spikes2=s2, t_start=t0, t_end=t1, MRTS=M, max_tau=mt)
        S1, S2 = st.acc(s1), st.acc(s2)
        pre = [t0 < t1, M >= 0, mt >= 0, spec.valid_train(S1, t0, t1, nonempty=False), spec.valid_train(S2, t0, t1, nonempty=False)]
        ctx = Ctx(mode=mode, N1=N1, N2=N2, t0=t0, t1=t1, M=M, mt=mt, S1=S1, S2=S2, lim=limit_of(mt, t0, t1), inputs={}, argorder=[])
        return st, pre, ctx

    # ---- ghost state: cursor positions after each event
    def ghost_init(self, st, c):
        st.vars['ei'] = z3.Store(z3.Const('ei_0', IARR), 0, -1)
        st.vars['ej'] = z3.Store(z3.Const('ej_0', IARR), 0, -1)

    def ghost_step(self, st, c):
        n = st.vars['n']
        st.vars['ei'] = z3.Store(st.vars['ei'], n, toI(st.vars['i']))
        st.vars['ej'] = z3.Store(st.vars['ej'], n, toI(st.vars['j']))

    # ---- per-event facts
    def parts(self, st, k):
        ei, ej = st.vars['ei'], st.vars['ej']
        a, b, pa, pb = z3.Select(ei, k), z3.Select(ej, k), z3.Select(ei, k - 1), z3.Select(ej, k - 1)
        return a, b, pa, pb, a == pa + 1, b == pb + 1

    def ev_ok(self, st, c, k, X, MP):
        a, b, pa, pb, adv1, adv2 = self.parts(st, k)
        S1, S2 = c.S1, c.S2
        return z3.And(-1 <= pa, a <= c.N1 - 1, -1 <= pb, b <= c.N2 - 1, z3.Or(a == pa, adv1), z3.Or(b == pb, adv2), z3.Or(adv1, adv2),
                      z3.Implies(adv1, X[k] == S1[a]), z3.Implies(adv2, X[k] == S2[b]),
                      z3.Implies(a >= 0, S1[a] <= X[k]), z3.Implies(b >= 0, S2[b] <= X[k]),
                      z3.Implies(z3.And(adv1, z3.Not(adv2), b >= 0), S2[b] < X[k]),
                      z3.Implies(z3.And(adv2, z3.Not(adv1), a >= 0), S1[a] < X[k]),
                      z3.Implies(a < c.N1 - 1, S1[a + 1] > X[k]), z3.Implies(b < c.N2 - 1, S2[b + 1] > X[k]),
                      MP[k] == z3.If(z3.And(adv1, adv2), z3.RealVal(2), z3.RealVal(1)))

    def coinc(self, c, a, b, first_is_1):
        """train-1 spike a and train-2 spike b (b earlier if first_is_1 is False ...) closer than their window"""
        S1, S2 = c.S1, c.S2
        d = (S2[b] - S1[a]) if first_is_1 else (S1[a] - S2[b])
        return d < tau_spec(S1, S2, a, b, c.lim, c.M)

    def prev_part(self, st, c, k):
        """mark contributed by the other train's spike that precedes event k"""
        a, b, pa, pb, adv1, adv2 = self.parts(st, k)
        m1 = z3.And(adv1, z3.Not(adv2), b >= 0, self.coinc(c, a, b, False))      # train-1 event, previous train-2 spike b
        m2 = z3.And(adv2, z3.Not(adv1), a >= 0, self.coinc(c, a, b, True))       # train-2 event, previous train-1 spike a
        return m1, m2

    def next_part(self, st, c, k):
        """mark contributed by the following event k+1 (an event of the other train only)"""
        a, b, pa, pb, adv1, adv2 = self.parts(st, k)
        a2, b2, _, _, nadv1, nadv2 = self.parts(st, k + 1)
        n1 = z3.And(adv1, z3.Not(adv2), nadv2, z3.Not(nadv1), self.coinc(c, a, b2, True))     # train-1 event k, then train-2 event
        n2 = z3.And(adv2, z3.Not(adv1), nadv1, z3.Not(nadv2), self.coinc(c, a2, b, False))    # train-2 event k, then train-1 event
        return n1, n2

    def value(self, both, m1, m2, n1, n2):
        """profile value of an event from its mark components"""
        if self.kind == 'sync':
            return z3.If(both, z3.RealVal(2), z3.If(z3.Or(m1, m2, n1, n2), z3.RealVal(1), z3.RealVal(0)))
        # order: +1 when the train-1 spike of the pair is the earlier one, -1 when it is the later one
        return z3.If(both, z3.RealVal(0), z3.If(z3.Or(m2, n1), z3.RealVal(1), z3.If(z3.Or(m1, n2), z3.RealVal(-1), z3.RealVal(0))))

    # ---- loop invariant
    def inv_range(self, st, c):
        i, j, n = st.vars['i'], st.vars['j'], st.vars['n']
        L = c.N1 + c.N2 + 2
        return z3.And(-1 <= i, i <= c.N1 - 1, -1 <= j, j <= c.N2 - 1, 0 <= n, n <= i + j + 2, i + j + 2 <= 2 * n,
                      toI(st.vars['st'].n) == L, toI(st.vars[self.val].n) == L, toI(st.vars['mp'].n) == L,
                      st.vars['true_max'] == c.lim)

    def inv_cursor(self, st, c):
        n = st.vars['n']
        return z3.And(z3.Select(st.vars['ei'], n) == st.vars['i'], z3.Select(st.vars['ej'], n) == st.vars['j'],
                      z3.Select(st.vars['ei'], 0) == -1, z3.Select(st.vars['ej'], 0) == -1)

    def inv_events(self, st, c):
        n = st.vars['n']
        X, MP = st.acc('st'), st.acc('mp')
        return forall(1, n + 1, lambda k: self.ev_ok(st, c, k, X, MP))

    def inv_incr(self, st, c):
        n = st.vars['n']
        X = st.acc('st')
        return forall(1, n, lambda k: X[k] < X[k + 1])

    def inv_marks(self, st, c):
        n = st.vars['n']
        C = st.acc(self.val)

        def fin(k):
            a, b, pa, pb, adv1, adv2 = self.parts(st, k)
            m1, m2 = self.prev_part(st, c, k)
            n1, n2 = self.next_part(st, c, k)
            return C[k] == self.value(z3.And(adv1, adv2), m1, m2, n1, n2)
        a, b, pa, pb, adv1, adv2 = self.parts(st, n)
        m1, m2 = self.prev_part(st, c, n)
        last = z3.Implies(n >= 1, C[n] == self.value(z3.And(adv1, adv2), m1, m2, z3.BoolVal(False), z3.BoolVal(False)))
        return z3.And(forall(1, n, fin), last)

    def inv_rest(self, st, c):
        n = st.vars['n']
        C, MP = st.acc(self.val), st.acc('mp')
        L = c.N1 + c.N2 + 2
        return z3.And(forall(n + 1, L, lambda k: z3.And(C[k] == 0, MP[k] == 1)), C[0] == 0, MP[0] == 1)

    # ---- postcondition (adjacent form of C03)
    def posts(self, st, ret, c):
        x, y, mp = ret
        X, Y, MP = st.acc(x), st.acc(y), st.acc(mp)
        ei, ej = st.vars['ei'], st.vars['ej']
        n = X.n - 2

        def fin(k):
            a, b, pa, pb, adv1, adv2 = self.parts(st, k)
            m1, m2 = self.prev_part(st, c, k)
            n1, n2 = self.next_part(st, c, k)
            nx = z3.And(k < n)
            return Y[k] == self.value(z3.And(adv1, adv2), m1, m2, z3.And(nx, n1), z3.And(nx, n2))
        out = [('shape', z3.And(toI(Y.n) == toI(X.n), toI(MP.n) == toI(X.n), n >= 0, X[0] == c.t0, X[n + 1] == c.t1)),
               ('all_spikes_consumed', z3.And(z3.Select(ei, n) == c.N1 - 1, z3.Select(ej, n) == c.N2 - 1, z3.Select(ei, 0) == -1, z3.Select(ej, 0) == -1)),
               ('events', forall(1, n + 1, lambda k: self.ev_ok(st, c, k, X, MP))),
               ('incr', forall(1, n, lambda k: X[k] < X[k + 1])),
               ('marks', forall(1, n + 1, fin)),
               ('edges', z3.If(c.N1 + c.N2 > 0, z3.And(Y[0] == Y[1], Y[n + 1] == Y[n], MP[0] == MP[1], MP[n + 1] == MP[n]),
                               z3.And(Y[0] == 1, Y[1] == 1, MP[0] == 1, MP[1] == 1)))]
        return out
