"""./check <property> --tier quick|thorough      decide one property on /repo's current working tree
   ./check --replay <file>                      re-execute a stored counterexample on the real code
Exit codes: 0 held (or only listed known findings) / 1 violation / 2 undecided / 3 checker crash."""
import argparse
import json
import os
import sys
import time
import traceback

HERE = os.path.dirname(os.path.dirname(os.path.abspath(__file__)))


def load_known():
    p = os.path.join(HERE, 'known_findings.json')
    if not os.path.exists(p):
        return []
    return json.load(open(p))


def write_json(path, obj):
    os.makedirs(os.path.dirname(path), exist_ok=True)
    tmp = path + '.tmp%d' % os.getpid()
    with open(tmp, 'w') as f:
        json.dump(obj, f, indent=1, default=str)
    os.replace(tmp, path)


def main(argv=None):
    ap = argparse.ArgumentParser()
    ap.add_argument('prop', nargs='?')
    ap.add_argument('--tier', default=os.environ.get('VERIF_TIER', 'quick'), choices=['quick', 'thorough'])
    ap.add_argument('--replay')
    ap.add_argument('--no-cache', action='store_true')
    ap.add_argument('--groups', help='debug: comma separated group names instead of the registry entry')
    a = ap.parse_args(argv)
    try:
        if a.replay:
            from . import decide
            return decide.replay_file(a.replay)
        if not a.prop:
            ap.error('property id required')
        from . import decide
        return decide.check_property(a.prop, a.tier, cache=not (a.no_cache or a.tier == 'thorough'),
                                     only_groups=a.groups.split(',') if a.groups else None)
    except SystemExit:
        raise
    except BaseException:
        traceback.print_exc()
        print("CHECKER-CRASH (exit 3): this is a defect of the verification machinery, not a verdict about the code")
        return 3


if __name__ == '__main__':
    sys.exit(main())
