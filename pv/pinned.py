"""Recorded defective results of known findings (known_findings.json 'pinned'): inside a carved input class a check
accepts exactly the recorded wrong result or the correct one, so a different change of behaviour is still reported."""
from .sym import *  # noqa


def _eq_list(ret, exp):
    if not isinstance(ret, (list, tuple)) or len(ret) != len(exp):
        return False
    return band(*[cmp('==', split(a)[0], split(b)[0]) for a, b in zip(ret, exp)])


def isilen_edges(c, st, ret):
    """D11: isi_lengths for a one-spike train on an edge / a two-spike train on both edges"""
    if c.n == 1:
        s0 = c.S[0]
        return bor(band(cmp('==', s0, c.t0), _eq_list(ret, [0, arith('-', c.t1, s0)])),
                   band(cmp('==', s0, c.t1), _eq_list(ret, [arith('-', s0, c.t0), 0])))
    if c.n == 2:
        d = arith('-', c.S[1], c.S[0])
        return _eq_list(ret, [d, d])
    return False


def _in_d11(S, n, t0, t1):
    if n == 1:
        return bor(cmp('==', S[0], t0), cmp('==', S[0], t1))
    if n == 2:
        return band(cmp('==', S[0], t0), cmp('==', S[1], t1))
    return False


def thresh_edges_class(c):
    """default_thresh on a list containing a train of the D11 class"""
    return bor(*[_in_d11(S, S.n, c.t0, c.t1) for S in c.accs])


def thresh_edges(c, st, ret):
    """D11 seen through default_thresh: the RMS over the pools isi_lengths really returns (one extra entry - a zero-length
    interval or the single interval a second time - for every train of the class)"""
    from .contracts.misc import IsiLengths
    cnt, ssq = 0, 0
    for S in c.accs:
        for cond, v in IsiLengths.expected(S, S.n, c.t0, c.t1):
            cnt = arith('+', cnt, ite(cond, 1, 0))
            ssq = arith('+', ssq, ite(cond, arith('*', v, v), 0))
        cls = _in_d11(S, S.n, c.t0, c.t1)
        if cls is not False:
            cnt = arith('+', cnt, ite(cls, 1, 0))
            if S.n == 2:
                d = arith('-', S[1], S[0])
                ssq = arith('+', ssq, ite(cls, arith('*', d, d), 0))
    r = split(ret)[0]
    return band(cmp('>=', r, 0), cmp('==', arith('*', arith('*', r, r), cnt), ssq))
