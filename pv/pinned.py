"""Recorded defective results of known findings (known_findings.json 'pinned'): inside a carved input class a check
accepts exactly the recorded wrong result or the correct one, so a different change of behaviour is still reported."""
from .sym import *  # noqa


def _eq_list(ret, exp):
    if not isinstance(ret, (list, tuple)) or len(ret) != len(exp):
        return False
    return band(*[cmp('==', split(a)[0], split(b)[0]) for a, b in zip(ret, exp)])


def isilen_edges(c, st, ret):
    """D11: isi_lengths for a one-spike train on an edge / a two-spike train on both edges"""
    if c.n == 1:
        s0 = c.S[0]
        return bor(band(cmp('==', s0, c.t0), _eq_list(ret, [0, arith('-', c.t1, s0)])),
                   band(cmp('==', s0, c.t1), _eq_list(ret, [arith('-', s0, c.t0), 0])))
    if c.n == 2:
        d = arith('-', c.S[1], c.S[0])
        return _eq_list(ret, [d, d])
    return False
