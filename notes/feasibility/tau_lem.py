import z3
from se import rmax, rmin
a,b,t,t2,a2,b2 = z3.Reals('a b t t2 a2 b2')
def Ipy(a,b,t):
    mab = rmin(a,b)
    return z3.If(t<mab, mab, z3.If(t>b, b, t))
def Icy(a,b,t):
    return z3.If(z3.And(t<a, a<b), a, z3.If(z3.And(t<b, b<=a), b, z3.If(t>b, b, t)))
def prove(name, f):
    s=z3.Solver(); s.add(z3.Not(f)); r=s.check(); print(f"{name:50s}", 'PROVED' if str(r)=='unsat' else f'{r} {s.model() if str(r)=="sat" else ""}')
prove('Interp == max(min(a,b),min(t,b))', Ipy(a,b,t)==rmax(rmin(a,b), rmin(t,b)))
prove('py Interpolate == pyx Interpolate', Ipy(a,b,t)==Icy(a,b,t))
prove('Interp <= b (given a,b>0... none needed)', Ipy(a,b,t)<=b)
prove('Interp monotone in t', z3.Implies(t<=t2, Ipy(a,b,t)<=Ipy(a,b,t2)))
prove('Interp monotone in a,b', z3.Implies(z3.And(a<=a2,b<=b2), Ipy(a,b,t)<=Ipy(a2,b2,t)))
prove('MRTS=0 => Interp=min(a,b) (a,b>0)', z3.Implies(z3.And(a>0,b>0), Ipy(a,b,0)==rmin(a,b)))
prove('t<min(a,b) => Interp=min(a,b)', z3.Implies(t<rmin(a,b), Ipy(a,b,t)==rmin(a,b)))
# tau for case s1[i] <= s2[j]: min(Interp(mP1,mF1,M/4), Interp(mF2,mP2,M/4)); cap claim tau <= max_tau fails:
mP1,mF1,mF2,mP2,M,mt = z3.Reals('mP1 mF1 mF2 mP2 M mt')
tau = rmin(Ipy(mP1,mF1,M/4), Ipy(mF2,mP2,M/4))
prove('tau <= mF1 and tau <= mP2 (facing half-ISIs)', z3.And(tau<=mF1, tau<=mP2))
prove('C16(i): tau <= max_tau  [expected to FAIL: D6]', z3.Implies(z3.And(mt>0,mP1>0,mF1>0,mF2>0,mP2>0,M>=0), tau<=mt))
