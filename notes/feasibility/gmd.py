import ast, sys, time, z3
from se import *
src = open('/repo/pyspike/cython/python_backend.py').read()
mod = ast.parse(src)
fn = [n for n in mod.body if isinstance(n, ast.FunctionDef) and n.name=='get_min_dist'][0]
I,R=z3.IntSort(),z3.RealSort()
tr = z3.Const('train', z3.ArraySort(I,R)); N=z3.Int('N'); tau,a0,a1=z3.Reals('tau a0 a1'); si_in=z3.Int('si_in')
k,kk=z3.Ints('k kk')
def sel(a,i): return z3.Select(a,i)
pre=[N>=0, z3.ForAll([k,kk], z3.Implies(z3.And(0<=k,k<kk,kk<N), sel(tr,k)<sel(tr,kk))),
     z3.ForAll([k], z3.Implies(z3.And(0<=k,k<N), z3.And(a0<=sel(tr,k), sel(tr,k)<=a1))), a0<=a1,
     si_in < N, z3.Or(si_in<=0, sel(tr,si_in)<=tau), z3.Or(N>0, si_in<=0)]
# note: callers pass index in [-1, N-1]
st0=dict(spike_time=tau, spike_train=Arr(tr,N,'train'), start_index=si_in, t_start=a0, t_end=a1)
def dist(x): return rabs(tau-x)
def inv_rng(st):
    si=st['start_index']; si0=st['si0']
    return z3.And(si0==z3.If(si_in<0,0,si_in), si0<=si, si<=z3.If(N>si0,N,si0))
def inv_d(st):
    si=st['start_index']; si0=st['si0']; d=st['d']
    return z3.And(z3.Implies(si==si0, d==dist(a0)), z3.Implies(si>si0, d==dist(sel(tr,si-1))), d<=dist(a0))
def inv_min(st):
    si=st['start_index']; si0=st['si0']; d=st['d']
    return z3.And(z3.ForAll([k], z3.Implies(z3.And(si0<=k,k<si), d<=dist(sel(tr,k)))),
                  z3.Implies(si>si0, z3.ForAll([k], z3.Implies(z3.And(0<=k,k<si0), d<=dist(sel(tr,k))))))
def post_min(st, v):
    return z3.And(v<=dist(a0), v<=dist(a1), z3.ForAll([k], z3.Implies(z3.And(0<=k,k<N), v<=dist(sel(tr,k)))))
def post_att(st, v):
    kq=z3.Int('kq')
    return z3.Or(v==dist(a0), v==dist(a1), z3.Exists([kq], z3.And(0<=kq,kq<N, v==dist(sel(tr,kq)))))
contracts=dict(loops=[dict(inv=[('rng',inv_rng),('d',inv_d),('min',inv_min)], ghost_init=dict(si0=lambda st: st['start_index'] if is_z3(st['start_index']) else z3.IntVal(st['start_index'])))],
               post=[('min',post_min),('attained',post_att)])
eng=Engine(fn,contracts)
eng.run_block(fn.body, st0, list(pre))
print('obligations',len(eng.obl))
t=time.time(); res=discharge(eng.obl, timeout=20000)
from collections import Counter
print(Counter(r for _,r,_ in res), '%.1fs'%(time.time()-t))
