import ast, sys, time, z3, multiprocessing as mp
from collections import Counter
from se3 import *
src = open('/repo/pyspike/cython/python_backend.py').read()
I,R=z3.IntSort(),z3.RealSort(); A=z3.ArraySort(I,R); IA=z3.ArraySort(I,I)
x1d,y1d,x2d,y2d=z3.Consts('x1 y1 x2 y2',A); n1,n2=z3.Ints('n1 n2')   # n = number of pieces
k,kk=z3.Ints('k kk')
sel=z3.Select
def incr(a,n): return z3.ForAll([k,kk], z3.Implies(z3.And(0<=k,k<kk,kk<n), sel(a,k)<sel(a,kk)))
pre=[n1>=1,n2>=1, incr(x1d,n1+1), incr(x2d,n2+1), sel(x1d,0)==sel(x2d,0), sel(x1d,n1)==sel(x2d,n2)]
st0=dict(x1=Arr(x1d,n1+1,'x1'),y1=Arr(y1d,n1,'y1'),x2=Arr(x2d,n2+1,'x2'),y2=Arr(y2d,n2,'y2'))
def seg(st,kx):
    c1,c2=sel(st['c1'],kx),sel(st['c2'],kx); xn=st['x_new'].data
    return z3.And(0<=c1,c1<n1,0<=c2,c2<n2, sel(st['y_new'].data,kx)==sel(y1d,c1)+sel(y2d,c2),
                  sel(x1d,c1)<=sel(xn,kx), sel(x2d,c2)<=sel(xn,kx))
def seg_right(st,kx):
    c1,c2=sel(st['c1'],kx),sel(st['c2'],kx); xn=st['x_new'].data
    return z3.And(sel(xn,kx+1)<=sel(x1d,c1+1), sel(xn,kx+1)<=sel(x2d,c2+1))
def inv_rng(st):
    i1,i2,ix=st['index1'],st['index2'],st['index']
    return z3.And(0<=i1,i1<n1,0<=i2,i2<n2,0<=ix,ix<=i1+i2, st['x_new'].len==n1+n2+2, st['y_new'].len==n1+n2+1)
def inv_cur(st):
    i1,i2,ix=st['index1'],st['index2'],st['index']; xn=st['x_new'].data
    return z3.And(sel(xn,ix)==rmax(sel(x1d,i1),sel(x2d,i2)), sel(x1d,i1+1)>sel(xn,ix), sel(x2d,i2+1)>sel(xn,ix), sel(xn,0)==sel(x1d,0),
                  sel(st['c1'],ix)==i1, sel(st['c2'],ix)==i2)
def inv_incr(st):
    ix=st['index']; xn=st['x_new'].data
    return z3.ForAll([k], z3.Implies(z3.And(0<=k,k<ix), sel(xn,k)<sel(xn,k+1)))
def inv_seg(st):
    ix=st['index']
    return z3.And(z3.ForAll([k], z3.Implies(z3.And(0<=k,k<=ix), seg(st,k))), z3.ForAll([k], z3.Implies(z3.And(0<=k,k<ix), seg_right(st,k))))
def ghost_init(nm):
    return lambda st: z3.Store(z3.Const(nm+'0',IA),0,0)
def ghost_step(st):
    ix=st['index']
    st['c1']=z3.Store(st['c1'],ix,toI(st['index1'])); st['c2']=z3.Store(st['c2'],ix,toI(st['index2']))
# post: result (x,y): len(x)=len(y)+1; x[0]=x1[0]; x[last]=x1[n1]; strictly incr; each segment value = y1(cover)+y2(cover) with cover witness EXISTS (no ghost after tail copy)
def post_shape(st,v):
    x,y=v; return z3.And(toI(x.len)==toI(y.len)+1, toI(y.len)>=1, sel(x.data,0)==sel(x1d,0), sel(x.data,toI(x.len)-1)==sel(x1d,n1))
def post_incr(st,v):
    x,y=v; return z3.ForAll([k], z3.Implies(z3.And(0<=k,k<toI(x.len)-1), sel(x.data,k)<sel(x.data,k+1)))
def post_val(st,v):
    x,y=v; kq=z3.Int('kq'); a,b=z3.Ints('a b')
    return z3.ForAll([kq], z3.Implies(z3.And(0<=kq,kq<toI(y.len)),
        z3.Exists([a,b], z3.And(0<=a,a<n1,0<=b,b<n2, sel(y.data,kq)==sel(y1d,a)+sel(y2d,b),
                                 sel(x1d,a)<=sel(x.data,kq), sel(x.data,kq+1)<=sel(x1d,a+1),
                                 sel(x2d,b)<=sel(x.data,kq), sel(x.data,kq+1)<=sel(x2d,b+1)))))
contracts=dict(loops=[dict(inv=[('rng',inv_rng),('cur',inv_cur),('incr',inv_incr),('seg',inv_seg)],
                           ghost_init=dict(c1=ghost_init('c1'),c2=ghost_init('c2')), ghost_mod=['c1','c2'], ghost_step=ghost_step)],
               post=[('shape',post_shape),('incr',post_incr),('val',post_val)])
def to_smt2(o):
    s=z3.Solver()
    for p in o.pc: s.add(p)
    s.add(z3.Not(o.goal)); return s.to_smt2()
def work(job):
    name,smt,to=job
    s=z3.Solver(); s.set('timeout',to); s.from_string(smt)
    t=time.time(); r=str(s.check()); return name,r,time.time()-t
def run(text,label):
    mod=ast.parse(text); fn=[n for n in mod.body if isinstance(n,ast.FunctionDef) and n.name=='add_piece_wise_const_python'][0]
    eng=Engine3(fn,contracts); eng.run_block(fn.body,dict(st0),list(pre))
    jobs=[(o.name,to_smt2(o),30000) for o in eng.obl]
    t=time.time()
    with mp.Pool(16) as pool: res=pool.map(work,jobs,chunksize=2)
    print(f"[{label}] obligations={len(jobs)} wall={time.time()-t:.1f}s cpu={sum(r[2] for r in res):.1f}s", dict(Counter(r for _,r,_ in res)))
    f=Counter(n for n,r,_ in res if r!='unsat')
    if f: print('   failing:',dict(f))
if __name__=='__main__':
    run(src,'baseline')
    run(src.replace("y_new[index+1:index+1+len(y1)-index1-1] = y1[index1+1:] + y2[-1]","y_new[index+1:index+1+len(y1)-index1-1] = y1[index1+1:] + y2[0]"),'M1 tail uses y2[0]')
    run(src.replace("        index += len(x2)-index2-2\n    else:  # both arrays reached the end simultaneously\n        # only the last x-value missing\n        x_new[index+1] = x1[-1]\n    # the last value is again","        index += len(x2)-index2-1\n    else:  # both arrays reached the end simultaneously\n        # only the last x-value missing\n        x_new[index+1] = x1[-1]\n    # the last value is again"),'M2 tail2 index off by one')
