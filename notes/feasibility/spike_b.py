import ast, sys, time, z3, multiprocessing as mp
from collections import Counter
from se2 import *
src = open('/repo/pyspike/cython/python_backend.py').read()
mod = ast.parse(src)
R=z3.RealSort(); I=z3.IntSort()

def mk_arr(name, n):
    a = z3.Const(name, z3.ArraySort(I,R))
    return Arr(a, n, name)
def elems(arr): return [z3.Select(arr.data, i) for i in range(arr.len)]

def mindist_spec(tau, train_elems, a0, a1):
    d = rabs(tau-a0)
    for x in train_elems: d = rmin(d, rabs(tau-x))
    return rmin(d, rabs(a1-tau))

# call models: contract substitution (no forking)
def m_get_min_dist(eng, args, pc):
    tau, train, start, a0, a1 = args
    return mindist_spec(tau, elems(train), a0, a1)
def m_dist_at_t(eng, args, pc):
    isi1, isi2, s1, s2, MRTS, RI = args
    mean = (toR(isi1)+toR(isi2))/2
    lim = rmax(MRTS, mean)
    if RI is True: return (toR(s1)+toR(s2))/2/lim
    return (toR(s1)*toR(isi2)+toR(s2)*toR(isi1))/2/(mean*lim)
def m_zeros(eng,args,pc): return Arr(z3.K(I, z3.RealVal(0)), args[0], 'zeros')

def spec_segment(t1, t2, N1, N2, t0, tE, MRTS, RI, xl, xr):
    """global definition of SPIKE profile limits on the open segment (xl, xr)."""
    def train(t, N, other, No):
        e = elems(t); oe = elems(other)
        a0 = rmin(t0, e[0]-(e[1]-e[0])) if N>1 else t0
        a1 = rmax(tE, e[N-1]+(e[N-1]-e[N-2])) if N>1 else tE
        oa0 = rmin(t0, oe[0]-(oe[1]-oe[0])) if No>1 else t0
        oa1 = rmax(tE, oe[No-1]+(oe[No-1]-oe[No-2])) if No>1 else tE
        md = [mindist_spec(e[i], oe, oa0, oa1) for i in range(N)]
        # index of previous spike: number of spikes <= xl, minus 1
        cases=[]
        # before first spike
        isi_first = rmax(e[0]-t0, e[1]-e[0]) if N>1 else e[0]-t0
        isi_last = rmax(tE-e[N-1], e[N-1]-e[N-2]) if N>1 else tE-e[N-1]
        res_l = md[0]; res_r = md[0]; isi = isi_first   # i=-1: xl < e[0]
        # build nested ifs from last to first
        out_l, out_r, out_isi = md[N-1], md[N-1], isi_last   # i = N-1
        for i in range(N-2, -1, -1):
            tp, tf = e[i], e[i+1]; L = tf-tp
            sl = (md[i]*(tf-xl) + md[i+1]*(xl-tp))/L
            sr = (md[i]*(tf-xr) + md[i+1]*(xr-tp))/L
            c = xl < e[i+1]
            out_l = z3.If(c, sl, out_l); out_r = z3.If(c, sr, out_r); out_isi = z3.If(c, L, out_isi)
        c = xl < e[0]
        out_l = z3.If(c, md[0], out_l); out_r = z3.If(c, md[0], out_r); out_isi = z3.If(c, isi_first, out_isi)
        return out_l, out_r, out_isi
    s1l, s1r, isi1 = train(t1, N1, t2, N2)
    s2l, s2r, isi2 = train(t2, N2, t1, N1)
    yl = m_dist_at_t(None, [isi1, isi2, s1l, s2l, MRTS, RI], None)
    yr = m_dist_at_t(None, [isi1, isi2, s1r, s2r, MRTS, RI], None)
    return yl, yr

def build(N1, N2, RI, use_contract=True):
    t1, t2 = mk_arr('t1',N1), mk_arr('t2',N2)
    t0, tE, MRTS = z3.Reals('t_start t_end MRTS')
    pre = [t0 < tE, MRTS >= 0]
    for t,N in ((t1,N1),(t2,N2)):
        e = elems(t)
        pre += [t0 <= e[0], e[-1] <= tE] + [e[i]<e[i+1] for i in range(N-1)]
    cm = {'np.zeros': m_zeros}
    eng = BEngine(mod, cm)
    if use_contract:
        cm['get_min_dist'] = m_get_min_dist
        cm['dist_at_t'] = m_dist_at_t
    else:
        raise NotImplementedError
    t=time.time()
    rets = eng.call('spike_distance_python', [t1,t2,t0,tE,MRTS,RI], pre)
    jobs=[]
    for pi,(rv,pc) in enumerate(rets):
        x, ys, ye = rv
        n = x.len
        assert isinstance(n,int)
        xs = [z3.simplify(z3.Select(x.data,i)) for i in range(n)]
        goals = [xs[0]==t0, xs[n-1]==tE] + [xs[i]<xs[i+1] for i in range(n-1)]
        for kx in range(n-1):
            yl, yr = spec_segment(t1,t2,N1,N2,t0,tE,MRTS,RI,xs[kx],xs[kx+1])
            goals.append(z3.Select(ys.data,kx)==yl); goals.append(z3.Select(ye.data,kx)==yr)
        for gi,g in enumerate(goals):
            s=z3.Solver(); 
            for p in pc: s.add(p)
            s.add(z3.Not(g)); jobs.append((f"path{pi}.goal{gi}", s.to_smt2(), 20000))
    print(f"N1={N1} N2={N2} RI={RI}: paths={len(rets)} forks={eng.nforks} pruned={eng.npruned} jobs={len(jobs)} gen={time.time()-t:.1f}s", flush=True)
    return jobs
def work(job):
    name, smt, to = job
    s = z3.Solver(); s.set('timeout', to); s.from_string(smt)
    t=time.time(); r=str(s.check()); dt=time.time()-t
    m=None
    if r=='sat': m=str(s.model())
    return name,r,dt,m
if __name__=='__main__':
    for (N1,N2) in [(1,1),(1,2),(2,2),(2,3)]:
        for RI in (False,True):
            jobs = build(N1,N2,RI)
            t=time.time()
            with mp.Pool(16) as pool: res = pool.map(work, jobs, chunksize=2)
            c=Counter(r for _,r,_,_ in res)
            print("   ", dict(c), f"wall={time.time()-t:.1f}s cpu={sum(r[2] for r in res):.1f}s", flush=True)
            shown=0
            for n,r,dt,m in res:
                if r=='sat' and shown<2: print("    CEX", n, m.replace('\n',' ')[:600]); shown+=1
