"""Prototype 3: adds slices with lower bounds, slice assignment, elementwise array+scalar, x[-1]."""
import ast, z3
from se import *
import se

class View:
    """lazy 1-D array: length + element function"""
    def __init__(self, length, fn): self.len, self.fn = length, fn
def as_view(a):
    if isinstance(a, View): return a
    return View(a.len, lambda k, d=a.data: z3.Select(d, k))

class Engine3(Engine):
    def ev_Subscript(self, e, st, pc):
        arr = self.ev(e.value, st, pc)
        if isinstance(e.slice, ast.Slice):
            v = as_view(arr)
            lo = self.ev(e.slice.lower, st, pc) if e.slice.lower else 0
            hi = self.ev(e.slice.upper, st, pc) if e.slice.upper else v.len
            if isinstance(hi, int) and hi < 0: hi = v.len + hi
            self.oblige(f"slice:{ast.unparse(e)}@{e.lineno}", pc, z3.And(toI(lo)>=0, toI(lo)<=toI(hi), toI(hi)<=toI(v.len)))
            if isinstance(arr, Arr) and lo == 0: return Arr(arr.data, hi, arr.name+"[:]")
            return View(hi-lo, lambda k, f=v.fn, lo=lo: f(k+lo))
        i = self.ev(e.slice, st, pc)
        if isinstance(i, int) and i < 0: i = arr.len + i
        self.index_ok(arr, i, pc, f"{ast.unparse(e)}@{e.lineno}")
        return z3.Select(arr.data, toI(i))
    def ev_BinOp(self, e, st, pc):
        a = self.ev(e.left, st, pc); b = self.ev(e.right, st, pc)
        op = {ast.Add:'+',ast.Sub:'-',ast.Mult:'*',ast.Div:'/'}[type(e.op)]
        if isinstance(a,(View,Arr)) or isinstance(b,(View,Arr)):
            if isinstance(a,(View,Arr)) and isinstance(b,(View,Arr)):
                va,vb=as_view(a),as_view(b)
                self.oblige(f"shape:{ast.unparse(e)}@{e.lineno}", pc, toI(va.len)==toI(vb.len))
                return View(va.len, lambda k: arith(op, va.fn(k), vb.fn(k)))
            if isinstance(a,(View,Arr)):
                va=as_view(a); return View(va.len, lambda k: arith(op, va.fn(k), b))
            vb=as_view(b); return View(vb.len, lambda k: arith(op, a, vb.fn(k)))
        return arith(op,a,b)
    def assign(self, tgt, val, st, pc):
        if isinstance(tgt, ast.Subscript) and isinstance(tgt.slice, ast.Slice):
            arr = st[tgt.value.id]
            lo = self.ev(tgt.slice.lower, st, pc) if tgt.slice.lower else 0
            hi = self.ev(tgt.slice.upper, st, pc) if tgt.slice.upper else arr.len
            src = as_view(val)
            self.oblige(f"slice-store-bounds:{ast.unparse(tgt)}@{tgt.lineno}", pc, z3.And(toI(lo)>=0, toI(lo)<=toI(hi), toI(hi)<=toI(arr.len)))
            self.oblige(f"slice-store-shape:{ast.unparse(tgt)}@{tgt.lineno}", pc, toI(hi)-toI(lo)==toI(src.len))
            new = fresh(tgt.value.id, arr.data.sort())
            k = z3.Int('ks')
            pc.append(z3.ForAll([k], z3.Select(new,k) == z3.If(z3.And(toI(lo)<=k, k<toI(hi)), src.fn(k-toI(lo)), z3.Select(arr.data,k))))
            st[tgt.value.id] = Arr(new, arr.len, arr.name)
            return
        if isinstance(tgt, ast.Subscript):
            arr = st[tgt.value.id]
            i = self.ev(tgt.slice, st, pc)
            if isinstance(i, int) and i < 0: i = arr.len + i
            self.index_ok(arr, i, pc, f"store {ast.unparse(tgt)}@{tgt.lineno}")
            st[tgt.value.id] = Arr(z3.Store(arr.data, toI(i), toR(val)), arr.len, arr.name); return
        super().assign(tgt, val, st, pc)
def toI(x): return z3.IntVal(x) if isinstance(x,int) else x
