import sys, z3
import spike_b as B
from spike_b import *
MD = z3.Function('MD', z3.RealSort(), z3.IntSort(), z3.RealSort())
_ids = {}
def tid(train_elems):
    key = str(train_elems[0])
    return 1 if 't1' in key else 2
def mindist_opaque(tau, train_elems, a0, a1):
    return MD(toR(tau), tid(train_elems))
B.mindist_spec = mindist_opaque
def m_gmd(eng, args, pc):
    tau, train, start, a0, a1 = args
    return mindist_opaque(tau, B.elems(train), a0, a1)
B.m_get_min_dist = m_gmd
_build = B.build
def build(N1,N2,RI):
    jobs = _build(N1,N2,RI)
    # add revealed lemma instances: MD(x, other)==0 if x in other ; MD >= 0
    t1 = [z3.Select(z3.Const('t1', z3.ArraySort(z3.IntSort(), z3.RealSort())), i) for i in range(N1)]
    t2 = [z3.Select(z3.Const('t2', z3.ArraySort(z3.IntSort(), z3.RealSort())), i) for i in range(N2)]
    ax = []
    for a in t1:
        ax.append(MD(a,2) >= 0)
        for b in t2: ax.append(z3.Implies(a==b, z3.And(MD(a,2)==0, MD(b,1)==0)))
    for b in t2: ax.append(MD(b,1) >= 0)
    s = z3.Solver(); s.add(ax); extra = s.to_smt2().replace('(check-sat)','')
    out=[]
    for n,smt,to in jobs:
        # prepend axioms: crude - merge by parsing both
        s = z3.Solver(); s.from_string(smt); s.add(ax)
        out.append((n, s.to_smt2(), to))
    return out
if __name__=='__main__':
    import multiprocessing as mp, time
    from collections import Counter
    for (N1,N2) in [(1,2),(2,2),(2,3),(3,3)]:
        for RI in (False,True):
            jobs = build(N1,N2,RI)
            t=time.time()
            with mp.Pool(16) as pool: res = pool.map(B.work, jobs, chunksize=2)
            c=Counter(r for _,r,_,_ in res)
            print("   ", dict(c), f"wall={time.time()-t:.1f}s cpu={sum(r[2] for r in res):.1f}s max={max(r[2] for r in res):.1f}", flush=True)
