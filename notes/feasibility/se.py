"""Throwaway prototype: symbolic executor Python-AST -> z3 VCs (feasibility only)."""
import ast, itertools, time, sys
import z3

class Arr:
    def __init__(self, data, length, name): self.data, self.len, self.name = data, length, name
    def copy(self): return Arr(self.data, self.len, self.name)

class Path(Exception): pass

_cnt = itertools.count()
def fresh(prefix, sort):
    return z3.Const(f"{prefix}!{next(_cnt)}", sort)

def is_z3(x): return isinstance(x, z3.ExprRef)
def toR(x):
    if isinstance(x, bool): raise TypeError
    if isinstance(x, (int,)): return z3.RealVal(x)
    if isinstance(x, float): return z3.RealVal(repr(x)) if x != int(x) else z3.RealVal(int(x))
    if is_z3(x) and x.sort() == z3.IntSort(): return z3.ToReal(x)
    return x
def isreal(x): return isinstance(x, float) or (is_z3(x) and x.sort()==z3.RealSort())

def arith(op, a, b):
    if not is_z3(a) and not is_z3(b):
        return {'+':lambda:a+b,'-':lambda:a-b,'*':lambda:a*b,'/':lambda:a/b}[op]()
    if isreal(a) or isreal(b) or op=='/':
        a, b = toR(a), toR(b)
    return {'+':lambda:a+b,'-':lambda:a-b,'*':lambda:a*b,'/':lambda:a/b}[op]()
def cmp(op, a, b):
    if not is_z3(a) and not is_z3(b):
        return {'<':a<b,'<=':a<=b,'>':a>b,'>=':a>=b,'==':a==b,'!=':a!=b}[op]
    if isreal(a) or isreal(b): a, b = toR(a), toR(b)
    return {'<':lambda:a<b,'<=':lambda:a<=b,'>':lambda:a>b,'>=':lambda:a>=b,'==':lambda:a==b,'!=':lambda:a!=b}[op]()
def bnot(a): return (not a) if isinstance(a,bool) else z3.Not(a)
def band(a,b):
    if a is True: return b
    if b is True: return a
    if a is False or b is False: return False
    return z3.And(a,b)
def bor(a,b):
    if a is False: return b
    if b is False: return a
    if a is True or b is True: return True
    return z3.Or(a,b)
def rmax(a,b):
    if isreal(a) or isreal(b): a,b=toR(a),toR(b)
    if not is_z3(a) and not is_z3(b): return max(a,b)
    return z3.If(a>=b,a,b)
def rmin(a,b):
    if isreal(a) or isreal(b): a,b=toR(a),toR(b)
    if not is_z3(a) and not is_z3(b): return min(a,b)
    return z3.If(a<=b,a,b)
def rabs(a):
    if not is_z3(a): return abs(a)
    return z3.If(a>=0,a,-a)

class Oblig:
    def __init__(self, name, pc, goal): self.name, self.pc, self.goal = name, pc, goal

class Engine:
    def __init__(self, func_ast, contracts, axioms=()):
        self.f = func_ast; self.c = contracts; self.obl = []; self.axioms=list(axioms)
        self.loop_no = 0
    # ---------- expressions
    def ev(self, e, st, pc):
        m = getattr(self, 'ev_'+type(e).__name__)
        return m(e, st, pc)
    def ev_Constant(self, e, st, pc): return e.value
    def ev_Name(self, e, st, pc): return st[e.id]
    def ev_UnaryOp(self, e, st, pc):
        v = self.ev(e.operand, st, pc)
        if isinstance(e.op, ast.USub): return -v
        if isinstance(e.op, ast.Not): return bnot(v)
        raise NotImplementedError
    def ev_BinOp(self, e, st, pc):
        a = self.ev(e.left, st, pc); b = self.ev(e.right, st, pc)
        op = {ast.Add:'+',ast.Sub:'-',ast.Mult:'*',ast.Div:'/'}[type(e.op)]
        return arith(op,a,b)
    def ev_Compare(self, e, st, pc):
        assert len(e.ops)==1
        a = self.ev(e.left, st, pc); b = self.ev(e.comparators[0], st, pc)
        op = {ast.Lt:'<',ast.LtE:'<=',ast.Gt:'>',ast.GtE:'>=',ast.Eq:'==',ast.NotEq:'!='}[type(e.ops[0])]
        return cmp(op,a,b)
    def ev_BoolOp(self, e, st, pc):
        isand = isinstance(e.op, ast.And)
        acc = True if isand else False
        pc2 = list(pc)
        for v in e.values:
            x = self.ev(v, st, pc2)
            if isand:
                acc = band(acc, x); 
                if x is not True: pc2 = pc2+[x] if x is not False else pc2+[z3.BoolVal(False)]
            else:
                acc = bor(acc, x)
                nx = bnot(x)
                if nx is not True: pc2 = pc2+[nx if nx is not False else z3.BoolVal(False)]
        return acc
    def ev_IfExp(self, e, st, pc):
        c = self.ev(e.test, st, pc)
        if c is True: return self.ev(e.body, st, pc)
        if c is False: return self.ev(e.orelse, st, pc)
        a = self.ev(e.body, st, pc+[c]); b = self.ev(e.orelse, st, pc+[z3.Not(c)])
        if isreal(a) or isreal(b): a,b = toR(a),toR(b)
        if not is_z3(a): a = z3.IntVal(a)
        if not is_z3(b): b = z3.IntVal(b)
        return z3.If(c,a,b)
    def ev_List(self, e, st, pc): return [self.ev(x, st, pc) for x in e.elts]
    def ev_Tuple(self, e, st, pc): return tuple(self.ev(x, st, pc) for x in e.elts)
    def index_ok(self, arr, i, pc, what):
        self.oblige(f"bounds:{what}", pc, band(cmp('>=',i,0), cmp('<',i,arr.len)))
    def ev_Subscript(self, e, st, pc):
        arr = self.ev(e.value, st, pc)
        if isinstance(e.slice, ast.Slice):
            lo = self.ev(e.slice.lower, st, pc) if e.slice.lower else 0
            hi = self.ev(e.slice.upper, st, pc) if e.slice.upper else arr.len
            assert lo == 0, "proto: only [:k] slices"
            self.oblige(f"slice:{ast.unparse(e)}@{e.lineno}", pc, band(cmp('>=',hi,0), cmp('<=',hi,arr.len)))
            return Arr(arr.data, hi, arr.name+"[:]")
        i = self.ev(e.slice, st, pc)
        self.index_ok(arr, i, pc, f"{ast.unparse(e)}@{e.lineno}")
        return z3.Select(arr.data, i if is_z3(i) else z3.IntVal(i))
    def ev_Attribute(self, e, st, pc):
        raise NotImplementedError(ast.unparse(e))
    def ev_Call(self, e, st, pc):
        fn = ast.unparse(e.func)
        args = [self.ev(a, st, pc) for a in e.args]
        if fn == 'len': return args[0].len
        if fn == 'abs': return rabs(args[0])
        if fn in ('max','min'):
            if len(args)==1 and isinstance(args[0], list): args = args[0]
            f = rmax if fn=='max' else rmin
            r = args[0]
            for a in args[1:]: r = f(r,a)
            return r
        if fn in ('np.empty','np.zeros'):
            n = args[0]
            self.oblige(f"alloc>=0@{e.lineno}", pc, cmp('>=',n,0))
            data = fresh('arr', z3.ArraySort(z3.IntSort(), z3.RealSort())) if fn=='np.empty' else z3.K(z3.IntSort(), z3.RealVal(0))
            return Arr(data, n, f"alloc@{e.lineno}")
        raise NotImplementedError(fn)
    # ---------- obligations
    def oblige(self, name, pc, goal):
        if goal is True: return
        if goal is False: goal = z3.BoolVal(False)
        self.obl.append(Oblig(name, list(pc), goal))
    # ---------- statements: returns list of (state, pc) continuing; 
    def run_block(self, stmts, st, pc):
        paths = [(st, pc)]
        for s in stmts:
            nxt = []
            for (st1, pc1) in paths:
                nxt.extend(self.run_stmt(s, st1, pc1))
            paths = nxt
        return paths
    def assign(self, tgt, val, st, pc):
        if isinstance(tgt, ast.Name):
            st[tgt.id] = val
        elif isinstance(tgt, ast.Subscript):
            arr = st[tgt.value.id]
            i = self.ev(tgt.slice, st, pc)
            self.index_ok(arr, i, pc, f"store {ast.unparse(tgt)}@{tgt.lineno}")
            st[tgt.value.id] = Arr(z3.Store(arr.data, i if is_z3(i) else z3.IntVal(i), toR(val)), arr.len, arr.name)
        else: raise NotImplementedError
    def run_stmt(self, s, st, pc):
        if isinstance(s, ast.Expr): return [(st,pc)]  # docstring
        if isinstance(s, ast.Assign):
            v = self.ev(s.value, st, pc); st = dict(st)
            self.assign(s.targets[0], v, st, pc); return [(st,pc)]
        if isinstance(s, ast.AugAssign):
            cur = self.ev(s.target, st, pc); v = self.ev(s.value, st, pc)
            op = {ast.Add:'+',ast.Sub:'-',ast.Mult:'*',ast.Div:'/'}[type(s.op)]
            st = dict(st); self.assign(s.target, arith(op,cur,v), st, pc); return [(st,pc)]
        if isinstance(s, ast.If):
            c = self.ev(s.test, st, pc)
            out = []
            if c is not False:
                out += self.run_block(s.body, dict(st), pc if c is True else pc+[c])
            if c is not True:
                out += self.run_block(s.orelse, dict(st), pc if c is False else pc+[z3.Not(c)])
            return out
        if isinstance(s, ast.While):
            loops = [n for n in ast.walk(self.f) if isinstance(n, (ast.While, ast.For))]
            self.loop_no = loops.index(s)+1
            lc = self.c['loops'][self.loop_no-1]
            # ghost init
            st = dict(st)
            for g, init in lc.get('ghost_init', {}).items(): st[g] = init(st)
            for nm, inv in lc['inv']:
                self.oblige(f"loop{self.loop_no}.entry.{nm}", pc, inv(st))
            mod = assigned(s.body) | set(lc.get('ghost_mod', []))
            st2 = dict(st)
            for v in mod:
                if v not in st: st2[v] = fresh(v, z3.RealSort()); continue
                old = st[v]
                if isinstance(old, Arr): st2[v] = Arr(fresh(v, old.data.sort()), old.len, v)
                elif is_z3(old) and z3.is_array_sort(old): st2[v] = fresh(v, old.sort())
                elif isinstance(old, int) or (is_z3(old) and old.sort()==z3.IntSort()): st2[v] = fresh(v, z3.IntSort())
                else: st2[v] = fresh(v, z3.RealSort())
            pc2 = list(pc) + [inv(st2) for nm, inv in lc['inv']]
            g = self.ev(s.test, st2, pc2)
            # body
            for (st3, pc3) in self.run_block(s.body, dict(st2), pc2+[g]):
                if 'ghost_step' in lc: lc['ghost_step'](st3)
                for nm, inv in lc['inv']:
                    self.oblige(f"loop{self.loop_no}.preserve.{nm}", pc3, inv(st3))
            return [(st2, pc2+[bnot(g)])]
        if isinstance(s, ast.Return):
            v = self.ev(s.value, st, pc)
            for nm, post in self.c['post']:
                self.oblige(f"post.{nm}", pc, post(st, v))
            return []
        raise NotImplementedError(type(s).__name__)

def assigned(stmts):
    out = set()
    for n in ast.walk(ast.Module(body=stmts, type_ignores=[])):
        if isinstance(n, (ast.Assign, ast.AugAssign)):
            tgts = n.targets if isinstance(n, ast.Assign) else [n.target]
            for t in tgts:
                if isinstance(t, ast.Name): out.add(t.id)
                elif isinstance(t, ast.Subscript): out.add(t.value.id)
    return out

def discharge(obls, axioms=(), timeout=20000):
    res = []
    for o in obls:
        s = z3.Solver(); s.set('timeout', timeout)
        for a in axioms: s.add(a)
        for p in o.pc: s.add(p)
        s.add(z3.Not(o.goal))
        t = time.time(); r = s.check(); dt = time.time()-t
        res.append((o.name, str(r), dt))
        if str(r) != 'unsat':
            print("  FAIL", o.name, r, f"{dt:.2f}s")
            if str(r)=='sat' and '-m' in sys.argv: print(s.model())
    return res
