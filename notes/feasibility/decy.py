"""Prototype: mechanical .pyx -> Python text (line-based), reporting every dropped/rewritten construct."""
import re, ast, sys, collections
CT = r'(?:unsigned\s+)?(?:double|int|long|float|bint|Py_ssize_t)(?:\s*\[\s*:\s*(?:,\s*:\s*)*\])?'
def decy(text):
    log = collections.Counter(); out=[]
    lines = text.split('\n'); i=0
    # join backslash/paren continuation only for def headers handled via regex on joined text later
    for ln in lines:
        raw = ln
        s = ln
        if re.match(r'\s*#cython:', s) or re.match(r'\s*#\s*cython\s', s): log['directive-comment']+=1
        if re.match(r'\s*cimport\s|\s*from\s+\S+\s+cimport\s', s):
            log['cimport-removed']+=1; out.append(re.match(r'\s*',s).group(0)+'pass  # '+s.strip()); continue
        m = re.match(r'(\s*)with\s+nogil\s*:\s*(#.*)?$', s)
        if m: log['with-nogil->if True']+=1; out.append(m.group(1)+'if True:  # with nogil'); continue
        # cdef function header
        m = re.match(r'(\s*)cdef\s+(?:inline\s+)?'+CT+r'\s+(\w+)\s*\((.*)$', s)
        if m:
            log['cdef-func->def']+=1; s = f"{m.group(1)}def {m.group(2)}({m.group(3)}"
        else:
            m = re.match(r'(\s*)cdef\s+'+CT+r'\s+(.*)$', s)
            if m:
                rest = m.group(2)
                if '=' in rest:
                    log['cdef-decl-with-init->assign']+=1; s = m.group(1)+rest
                else:
                    log['cdef-decl-removed']+=1; s = m.group(1)+'pass  # cdef '+rest
        # typed parameters inside def headers / continuation lines of headers
        s2 = re.sub(r'(?<![\w.])'+CT+r'\s+(?=\w+\s*(?:[,)=]|$))', '', s)
        if s2 != s: log['param-type-stripped']+=1; s = s2
        s2 = re.sub(r'\)\s*nogil\s*:', '):', s)
        if s2 != s: log['nogil-suffix-stripped']+=1; s = s2
        out.append(s)
    body = '\n'.join(out)
    prelude = "from math import fabs\nfmax = max\nfmin = min\nxrange = range\n"
    return prelude + body, log
if __name__=='__main__':
    import glob
    for f in sorted(glob.glob('/repo/pyspike/cython/*.pyx')):
        t, log = decy(open(f).read())
        try:
            m = ast.parse(t); fns=[n.name for n in ast.walk(m) if isinstance(n, ast.FunctionDef)]
            print(f.split('/')[-1], 'OK', fns, dict(log))
        except SyntaxError as e:
            print(f.split('/')[-1], 'SYNTAX', e, '\n   ', t.split('\n')[e.lineno-1])
        open('/tmp/proto/'+f.split('/')[-1].replace('.pyx','_decy.py'),'w').write(t)
