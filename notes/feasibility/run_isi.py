import sys, time, z3, multiprocessing as mp, re, ast
from collections import Counter
sys.argv_extra = sys.argv
exec(open('/tmp/proto/isi_contract.py').read())

def to_smt2(o, vac=False):
    s = z3.Solver()
    for p in o.pc: s.add(p)
    if not vac: s.add(z3.Not(o.goal))
    return s.to_smt2()
def work(job):
    name, smt, to = job
    s = z3.Solver(); s.set('timeout', to); s.from_string(smt)
    t=time.time(); r=str(s.check()); dt=time.time()-t
    m = None
    if r=='sat':
        try: m = str(s.model())[:1500]
        except Exception: pass
    return name, r, dt, m

def run(src_text, label, vac=False, timeout=30000):
    mod = ast.parse(src_text)
    fn = [n for n in mod.body if isinstance(n, ast.FunctionDef) and n.name=='isi_distance_python'][0]
    eng = Engine(fn, contracts)
    t=time.time()
    eng.run_block(fn.body, dict(st0), list(pre))
    jobs = [(o.name, to_smt2(o), timeout) for o in eng.obl]
    if vac:
        seen=set(); vj=[]
        for o in eng.obl:
            key = tuple(p.get_id() if is_z3(p) else str(p) for p in o.pc)
            if key in seen: continue
            seen.add(key); vj.append(('vac:'+o.name, to_smt2(o, True), 3000))
    tg=time.time()-t; t=time.time()
    with mp.Pool(16) as pool:
        res = pool.map(work, jobs, chunksize=4)
        vres = pool.map(work, vj, chunksize=4) if vac else []
    c = Counter(r for _,r,_,_ in res)
    print(f"[{label}] obligations={len(jobs)} gen={tg:.1f}s solve_wall={time.time()-t:.1f}s cpu={sum(r[2] for r in res):.1f}s", dict(c))
    fails = Counter(n for n,r,_,_ in res if r!='unsat')
    if fails: print("   failing:", dict(fails))
    for n,r,dt,m in res:
        if r=='sat' and m and '-m' in sys.argv: print('   model for',n,':',m); break
    if vac:
        print("   vacuity: distinct pcs", len(vj), Counter(r for _,r,_,_ in vres))
    return res

if __name__=='__main__':
    run(src, 'baseline', vac=True)
    muts = {
      'M1 max->min in last-ISI edge corr (train1, branch1)': ("nu1 = max(t_end-s1[N1-1], s1[N1-1]-s1[N1-2]) if N1 > 1 \\\n                    else t_end-s1[N1-1]\n\n        elif", "nu1 = min(t_end-s1[N1-1], s1[N1-1]-s1[N1-2]) if N1 > 1 \\\n                    else t_end-s1[N1-1]\n\n        elif"),
      'M2 drop MRTS from max in loop': ("isi_values[index] = abs(nu1 - nu2) / \\\n            max([nu1, nu2, MRTS])", "isi_values[index] = abs(nu1 - nu2) / \\\n            max([nu1, nu2])"),
      'M3 tie break < -> <= in branch1': ("index2 == N2-1 or s1[index1+1] < s2[index2+1])", "index2 == N2-1 or s1[index1+1] <= s2[index2+1])"),
      'M4 trailing trim removed': ("    if spike_events[index-1] == t_end:\n        index -= 1\n    else:\n        spike_events[index] = t_end", "    spike_events[index] = t_end"),
      'M5 first-ISI uses t_end for single spike on edge -> wrong': ("nu2 = s2[1] - s2[0] if N2 > 1 else t_end-s2[0]", "nu2 = s2[1] - s2[0] if N2 > 1 else s2[0]-t_start"),
      'H1 harmless: swap order of operands in max list': ("isi_values[0] = abs(nu1 - nu2) / max([nu1, nu2, MRTS])", "isi_values[0] = abs(nu2 - nu1) / max([MRTS, nu2, nu1])"),
    }
    for label,(a,b) in muts.items():
        assert src.count(a)>=1, label
        run(src.replace(a,b,1), label)
