import sys, time, z3, multiprocessing as mp
from collections import Counter
import spike_b as B
from spike_b import *
def build_range(N1,N2,RI,mrts_zero):
    t1, t2 = B.mk_arr('t1',N1), B.mk_arr('t2',N2)
    t0, tE, MRTS = z3.Reals('t_start t_end MRTS')
    pre = [t0 < tE, MRTS == 0 if mrts_zero else MRTS >= 0]
    for t,N in ((t1,N1),(t2,N2)):
        e = B.elems(t); pre += [t0 <= e[0], e[-1] <= tE] + [e[i]<e[i+1] for i in range(N-1)]
    cm = {'np.zeros': B.m_zeros, 'get_min_dist': B.m_get_min_dist, 'dist_at_t': B.m_dist_at_t}
    eng = BEngine(B.mod, cm)
    rets = eng.call('spike_distance_python', [t1,t2,t0,tE,MRTS,RI], pre)
    jobs=[]
    for pi,(rv,pc) in enumerate(rets):
        x, ys, ye = rv; n=x.len
        for kx in range(n-1):
            for nm,arr in (('ys',ys),('ye',ye)):
                v = z3.Select(arr.data,kx)
                for gname,g in (('le1', v<=1),('ge0', v>=0)):
                    s=z3.Solver()
                    for p in pc: s.add(p)
                    s.add(z3.Not(g)); jobs.append((f"p{pi}.{nm}[{kx}].{gname}", s.to_smt2(), 30000))
    return jobs
if __name__=='__main__':
    for (N1,N2) in [(1,1),(1,2),(2,2)]:
        for RI in (False,True):
            jobs = build_range(N1,N2,RI,True)
            t=time.time()
            with mp.Pool(16) as pool: res = pool.map(B.work, jobs, chunksize=1)
            c=Counter(r for _,r,_,_ in res)
            print(f"N1={N1} N2={N2} RI={RI} MRTS=0:", dict(c), f"wall={time.time()-t:.1f}s", flush=True)
            shown=0
            for n,r,dt,m in res:
                if r=='sat' and shown<3: print("    CEX", n, m.replace('\n',' ')[:500]); shown+=1
