"""Prototype 2: bounded mode (concrete lengths, loops unrolled), calls by contract-substitution or inlining."""
import ast, z3, time, itertools
from se import *

class Ret(Exception): pass

class BEngine(Engine):
    def __init__(self, module_ast, call_models=None, prune=True):
        self.mod = module_ast
        self.funcs = {n.name:n for n in module_ast.body if isinstance(n, ast.FunctionDef)}
        self.call_models = call_models or {}
        self.obl=[]; self.prune=prune; self.nforks=0; self.npruned=0
    def feasible(self, pc):
        if not self.prune: return True
        s = z3.Solver(); s.set('timeout', 5000)
        for p in pc: s.add(p)
        r = s.check()
        if str(r)=='unsat': self.npruned+=1; return False
        return True
    def ev_Call(self, e, st, pc):
        fn = ast.unparse(e.func)
        if fn in self.call_models:
            args = [self.ev(a, st, pc) for a in e.args]
            return self.call_models[fn](self, args, pc)
        if fn in ('np.empty_like',):
            a = self.ev(e.args[0], st, pc)
            return Arr(fresh('arr', a.data.sort()), a.len, 'empty_like')
        return super().ev_Call(e, st, pc)
    # statements return list of (st, pc, retval_or_None) ; retval set => function returned
    def run_block(self, stmts, st, pc):
        paths = [(st, pc, None)]
        for s in stmts:
            nxt=[]
            for (st1,pc1,rv) in paths:
                if rv is not None: nxt.append((st1,pc1,rv)); continue
                nxt.extend(self.run_stmt(s, st1, pc1))
            paths = nxt
        return paths
    def run_stmt(self, s, st, pc):
        if isinstance(s, ast.Expr): return [(st,pc,None)]
        if isinstance(s, (ast.Assign, ast.AugAssign)):
            return [(a,b,None) for a,b in Engine.run_stmt(self, s, st, pc)]
        if isinstance(s, ast.If):
            c = self.ev(s.test, st, pc); out=[]
            if c is True: return self.run_block(s.body, dict(st), pc)
            if c is False: return self.run_block(s.orelse, dict(st), pc)
            self.nforks+=1
            if self.feasible(pc+[c]): out += self.run_block(s.body, dict(st), pc+[c])
            if self.feasible(pc+[z3.Not(c)]): out += self.run_block(s.orelse, dict(st), pc+[z3.Not(c)])
            return out
        if isinstance(s, ast.While):
            out=[]; work=[(st,pc)]
            it=0
            while work:
                it+=1; assert it<100000
                st1,pc1 = work.pop()
                g = self.ev(s.test, st1, pc1)
                if g is False: out.append((st1,pc1,None)); continue
                if g is True: branches=[(pc1,True)]
                else:
                    branches=[]
                    if self.feasible(pc1+[g]): branches.append((pc1+[g],True))
                    if self.feasible(pc1+[z3.Not(g)]): out.append((st1,pc1+[z3.Not(g)],None))
                for pcb,_ in branches:
                    for (st2,pc2,rv) in self.run_block(s.body, dict(st1), pcb):
                        if rv is not None: out.append((st2,pc2,rv))
                        else: work.append((st2,pc2))
            return out
        if isinstance(s, ast.Return):
            return [(st,pc,('ret', self.ev(s.value, st, pc)))]
        raise NotImplementedError(type(s).__name__)
    def call(self, name, args, pc):
        f = self.funcs[name]
        st = {a.arg:v for a,v in zip(f.args.args, args)}
        # defaults
        nd = len(f.args.defaults)
        for a,d in zip(f.args.args[-nd:] if nd else [], f.args.defaults):
            if a.arg not in st: st[a.arg] = self.ev(d, {}, pc)
        return [(rv[1],pc1) for (_,pc1,rv) in self.run_block(f.body, st, pc)]
