import sys, importlib.util, glob, os
d='/tmp/proto/shim/pyspike_decy'
import pyspike.cython
order=['cython_get_tau','cython_add','cython_profiles','cython_distances','cython_directionality','cython_simulated_annealing']
for name in order:
    spec = importlib.util.spec_from_file_location('pyspike.cython.'+name, f'{d}/{name}.py')
    m = importlib.util.module_from_spec(spec); sys.modules['pyspike.cython.'+name]=m
    try: spec.loader.exec_module(m); setattr(pyspike.cython, name, m)
    except Exception as e: print('inject failed', name, e); del sys.modules['pyspike.cython.'+name]
