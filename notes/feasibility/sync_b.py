import ast, sys, time, z3, multiprocessing as mp
from collections import Counter
from se2 import *
src = open('/repo/pyspike/cython/python_backend.py').read()
mod = ast.parse(src)
R=z3.RealSort(); I=z3.IntSort()
def mk_arr(name,n): return Arr(z3.Const(name, z3.ArraySort(I,R)), n, name)
def elems(a): return [z3.Select(a.data,i) for i in range(a.len)]
def Interp(a,b,t):
    mab=rmin(a,b); return z3.If(t<mab, mab, z3.If(t>b, b, t))
def tau_spec(s1,s2,i,j,limit,MRTS):
    """window from the C03 statement; i,j concrete ints (may be -1)"""
    e1,e2=elems(s1),elems(s2); N1,N2=len(e1),len(e2)
    mF1 = (e1[i+1]-e1[i]) if (-1 < i < N1-1) else limit
    mF2 = (e2[j+1]-e2[j]) if (-1 < j < N2-1) else limit
    mP1 = (e1[i]-e1[i-1]) if i>0 else limit
    mP2 = (e2[j]-e2[j-1]) if j>0 else limit
    mF1,mF2,mP1,mP2 = toR(mF1)/2,toR(mF2)/2,toR(mP1)/2,toR(mP2)/2
    t = toR(MRTS)/4
    if i<0 or j<0: return rmin(Interp(mP1,mF1,t), Interp(mF2,mP2,t))
    return z3.If(e1[i]<=e2[j], rmin(Interp(mP1,mF1,t), Interp(mF2,mP2,t)), rmin(Interp(mF1,mP1,t), Interp(mP2,mF2,t)))
def m_get_tau(eng,args,pc):
    s1,s2,i,j,limit,MRTS=args
    assert isinstance(i,int) and isinstance(j,int)
    return tau_spec(s1,s2,i,j,limit,MRTS)
def m_zeros(eng,args,pc): return Arr(z3.K(I,z3.RealVal(0)), args[0], 'zeros')
def m_ones(eng,args,pc): return Arr(z3.K(I,z3.RealVal(1)), args[0], 'ones')

def build(N1,N2):
    s1,s2=mk_arr('s1',N1),mk_arr('s2',N2)
    t0,tE,MRTS,mt=z3.Reals('t_start t_end MRTS max_tau')
    pre=[t0<tE, MRTS>=0, mt>=0]
    for s,N in ((s1,N1),(s2,N2)):
        e=elems(s)
        if N: pre+=[t0<=e[0], e[-1]<=tE]+[e[i]<e[i+1] for i in range(N-1)]
    eng=BEngine(mod, {'get_tau':m_get_tau,'np.zeros':m_zeros,'np.ones':m_ones})
    rets=eng.call('coincidence_python',[s1,s2,t0,tE,mt,MRTS],pre)
    limit = z3.If(mt>0, rmin(tE-t0, 2*mt), tE-t0)
    e1,e2=elems(s1),elems(s2)
    def coinc(i,j): return rabs(e1[i]-e2[j]) < tau_spec(s1,s2,i,j,limit,MRTS)
    jobs=[]
    for pi,(rv,pc) in enumerate(rets):
        st,c,mp_=rv; n=st.len
        assert isinstance(n,int)
        xs=[z3.simplify(z3.Select(st.data,k)) for k in range(n)]
        cs=[z3.Select(c.data,k) for k in range(n)]; ms=[z3.Select(mp_.data,k) for k in range(n)]
        goals=[('x0',xs[0]==t0),('xend',xs[n-1]==tE)]
        # pairwise definition, per event: event time xs[k] (1..n-2)
        for k in range(1,n-1):
            in1=[(xs[k]==e1[i]) for i in range(N1)]; in2=[(xs[k]==e2[j]) for j in range(N2)]
            both=z3.And(z3.Or(in1) if in1 else False, z3.Or(in2) if in2 else False)
            is1 = z3.Or(in1) if in1 else z3.BoolVal(False)
            c1=z3.Or([z3.And(in1[i], z3.Or([coinc(i,j) for j in range(N2)]) if N2 else False) for i in range(N1)]) if N1 else z3.BoolVal(False)
            c2=z3.Or([z3.And(in2[j], z3.Or([coinc(i,j) for i in range(N1)]) if N1 else False) for j in range(N2)]) if N2 else z3.BoolVal(False)
            expect_c = z3.If(both, z3.RealVal(2), z3.If(z3.Or(c1,c2), z3.RealVal(1), z3.RealVal(0)))
            goals.append((f'c[{k}]', cs[k]==expect_c)); goals.append((f'mp[{k}]', ms[k]==z3.If(both,z3.RealVal(2),z3.RealVal(1))))
            goals.append((f'isspike[{k}]', z3.Or(in1+in2)))
            if k>1: goals.append((f'incr[{k}]', xs[k-1]<xs[k]))
        # every spike appears
        for i in range(N1): goals.append((f's1[{i}] present', z3.Or([xs[k]==e1[i] for k in range(1,n-1)]) if n>2 else z3.BoolVal(False)))
        for j in range(N2): goals.append((f's2[{j}] present', z3.Or([xs[k]==e2[j] for k in range(1,n-1)]) if n>2 else z3.BoolVal(False)))
        # C16(i): coincident pairs closer than max_tau   (expected to fail: D6)
        for g,(nm,gl) in enumerate(goals):
            s=z3.Solver()
            for p in pc: s.add(p)
            s.add(z3.Not(gl)); jobs.append((f"p{pi}.{nm}", s.to_smt2(), 20000))
    print(f"N1={N1} N2={N2}: paths={len(rets)} jobs={len(jobs)}", flush=True)
    return jobs
def work(job):
    name,smt,to=job
    s=z3.Solver(); s.set('timeout',to); s.from_string(smt)
    t=time.time(); r=str(s.check()); dt=time.time()-t
    return name,r,dt,(str(s.model()) if r=='sat' else None)
if __name__=='__main__':
    for (N1,N2) in [(0,0),(0,2),(1,1),(2,2),(2,3),(3,3),(3,4)]:
        t=time.time(); jobs=build(N1,N2); tg=time.time()-t; t=time.time()
        with mp.Pool(16) as pool: res=pool.map(work,jobs,chunksize=4)
        print("    ",dict(Counter(r for _,r,_,_ in res)), f"gen={tg:.1f}s wall={time.time()-t:.1f}s cpu={sum(r[2] for r in res):.1f}s", flush=True)
        for n,r,dt,m in res:
            if r!='unsat': print('     ',n,r,(m or '').replace('\n',' ')[:300]); break
