import ast, sys, time, z3
from se import *
src = open('/repo/pyspike/cython/python_backend.py').read()
mod = ast.parse(src)
fn = [n for n in mod.body if isinstance(n, ast.FunctionDef) and n.name=='isi_distance_python'][0]

I, R = z3.IntSort(), z3.RealSort()
A = z3.ArraySort(I, R)
s1d, s2d = z3.Consts('s1 s2', A)
N1, N2 = z3.Ints('N1 N2')
t_start, t_end, MRTS = z3.Reals('t_start t_end MRTS')
k = z3.Int('k'); kk = z3.Int('kk')

def sel(a,i): return z3.Select(a, i)
def sorted_strict(a, n):
    return z3.ForAll([k,kk], z3.Implies(z3.And(0<=k, k<kk, kk<n), sel(a,k) < sel(a,kk)))
def nu(a, n, i, t0, t1):
    first = z3.If(n>1, rmax(sel(a,0)-t0, sel(a,1)-sel(a,0)), sel(a,0)-t0)
    last = z3.If(n>1, rmax(t1-sel(a,n-1), sel(a,n-1)-sel(a,n-2)), t1-sel(a,n-1))
    return z3.If(i==-1, first, z3.If(i==n-1, last, sel(a,i+1)-sel(a,i)))
def ratio(v1, v2, m):
    return rabs(v1-v2)/rmax(rmax(v1,v2),m)
def cur(a, i, t0): return z3.If(i>=0, sel(a,i), t0)

pre = [N1>=1, N2>=1, sorted_strict(s1d,N1), sorted_strict(s2d,N2),
       t_start <= sel(s1d,0), sel(s1d,N1-1) <= t_end, t_start <= sel(s2d,0), sel(s2d,N2-1)<=t_end,
       t_start < t_end, MRTS >= 0]
st0 = dict(s1=Arr(s1d,N1,'s1'), s2=Arr(s2d,N2,'s2'), t_start=t_start, t_end=t_end, MRTS=MRTS)

IA = z3.ArraySort(I, I)
def inv_range(st):
    i1,i2,ix = st['index1'],st['index2'],st['index']
    return z3.And(-1<=i1, i1<=N1-1, -1<=i2, i2<=N2-1, 1<=ix, ix<=i1+i2+3, st['spike_events'].len==N1+N2+2, st['isi_values'].len==N1+N2+1)
def inv_nu(st):
    return z3.And(st['nu1']==nu(s1d,N1,st['index1'],t_start,t_end), st['nu2']==nu(s2d,N2,st['index2'],t_start,t_end))
def inv_cur(st):
    i1,i2,ix = st['index1'],st['index2'],st['index']
    ev = st['spike_events'].data
    c = rmax(cur(s1d,i1,t_start), cur(s2d,i2,t_start))
    return z3.And(sel(ev,ix-1)==c, sel(ev,0)==t_start,
                  z3.Implies(z3.And(i1<N1-1), sel(s1d,i1+1) > c),
                  z3.Implies(z3.And(i2<N2-1), sel(s2d,i2+1) > c),
                  z3.Implies(i1==-1, sel(s1d,0)>t_start), z3.Implies(i2==-1, sel(s2d,0)>t_start))
def inv_incr(st):
    ix = st['index']; ev = st['spike_events'].data
    return z3.ForAll([k], z3.Implies(z3.And(0<=k, k<ix-1), sel(ev,k) < sel(ev,k+1)))
def inv_ghost_last(st):
    ix = st['index']
    return z3.And(sel(st['g1'],ix-1)==st['index1'], sel(st['g2'],ix-1)==st['index2'])
def seg_ok(st, kx, upto_events):
    """facts about segment kx"""
    ev = st['spike_events'].data; iv = st['isi_values'].data
    g1, g2 = sel(st['g1'],kx), sel(st['g2'],kx)
    return z3.And(-1<=g1, g1<=N1-1, -1<=g2, g2<=N2-1,
                  sel(iv,kx)==ratio(nu(s1d,N1,g1,t_start,t_end), nu(s2d,N2,g2,t_start,t_end), MRTS),
                  z3.Implies(g1>=0, sel(s1d,g1)<=sel(ev,kx)), z3.Implies(g2>=0, sel(s2d,g2)<=sel(ev,kx)),
                  z3.Implies(g1==-1, sel(s1d,0) > sel(ev,kx)), z3.Implies(g2==-1, sel(s2d,0) > sel(ev,kx)),
                  )
def inv_vals(st):
    ix = st['index']
    return z3.ForAll([k], z3.Implies(z3.And(0<=k, k<ix), seg_ok(st,k,ix)))
def inv_right(st):
    ix = st['index']; ev = st['spike_events'].data
    return z3.ForAll([k], z3.Implies(z3.And(0<=k, k<ix-1),
             z3.And(z3.Implies(sel(st['g1'],k)<N1-1, sel(ev,k+1) <= sel(s1d, sel(st['g1'],k)+1)),
                    z3.Implies(sel(st['g2'],k)<N2-1, sel(ev,k+1) <= sel(s2d, sel(st['g2'],k)+1)))))

def ghost_init(name):
    def f(st):
        base = z3.Const(name+'0', IA)
        return z3.Store(base, 0, st['index1'] if name=='g1' else st['index2'])
    return f
def ghost_step(st):
    # executed at end of body (index already incremented)
    ix = st['index']
    st['g1'] = z3.Store(st['g1'], ix-1, st['index1'] if is_z3(st['index1']) else z3.IntVal(st['index1']))
    st['g2'] = z3.Store(st['g2'], ix-1, st['index2'] if is_z3(st['index2']) else z3.IntVal(st['index2']))

def post_shape(st, v):
    x, y = v
    return z3.And(x.len == y.len+1, y.len>=1, sel(x.data,0)==t_start, sel(x.data,x.len-1)==t_end)
def post_incr(st, v):
    x, y = v
    return z3.ForAll([k], z3.Implies(z3.And(0<=k,k<x.len-1), sel(x.data,k)<sel(x.data,k+1)))
def post_vals(st, v):
    x, y = v
    g1,g2 = st['g1'],st['g2']
    kq = z3.Int('kq')
    body = z3.And(sel(y.data,kq)==ratio(nu(s1d,N1,sel(g1,kq),t_start,t_end), nu(s2d,N2,sel(g2,kq),t_start,t_end), MRTS),
                  -1<=sel(g1,kq), sel(g1,kq)<=N1-1,
                  z3.Implies(sel(g1,kq)>=0, sel(s1d,sel(g1,kq))<=sel(x.data,kq)),
                  z3.Implies(sel(g1,kq)<N1-1, sel(x.data,kq+1)<=sel(s1d,sel(g1,kq)+1)),
                  z3.Implies(sel(g2,kq)>=0, sel(s2d,sel(g2,kq))<=sel(x.data,kq)),
                  z3.Implies(sel(g2,kq)<N2-1, sel(x.data,kq+1)<=sel(s2d,sel(g2,kq)+1)))
    return z3.ForAll([kq], z3.Implies(z3.And(0<=kq,kq<y.len), body))
def post_pos(st, v):
    # denominators positive => values well-defined and in [0,1]
    x, y = v
    kq = z3.Int('kq')
    return z3.ForAll([kq], z3.Implies(z3.And(0<=kq,kq<y.len), z3.And(sel(y.data,kq)>=0, sel(y.data,kq)<=1)))

contracts = dict(
  loops=[dict(inv=[('range',inv_range),('nu',inv_nu),('cur',inv_cur),('incr',inv_incr),('glast',inv_ghost_last),('vals',inv_vals),('right',inv_right)],
              ghost_init=dict(g1=ghost_init('g1'), g2=ghost_init('g2')), ghost_mod=['g1','g2'], ghost_step=ghost_step)],
  post=[('shape',post_shape),('incr',post_incr),('vals',post_vals)] + ([('range01',post_pos)] if '-r' in sys.argv else []))

