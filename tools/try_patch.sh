#!/bin/bash
# tools/try_patch.sh <patch.diff> <tier> <prop> [<prop> ...]   apply a change to /repo, run the named checks, undo the change
patch=$1; tier=$2; shift 2
cd "$(dirname "$0")/.."
if ! git -C /repo diff --quiet; then echo "/repo has local changes - refusing"; exit 9; fi
git -C /repo apply "$patch" || { echo "patch does not apply"; exit 8; }
trap 'git -C /repo checkout -- . ' EXIT
for p in "$@"; do
  s=$(date +%s)
  ./check $p --tier $tier --no-cache > /tmp/try_$p.log 2>&1
  rc=$?
  e=$(date +%s)
  echo "$p exit=$rc wall=$((e-s))s :: $(grep -m2 -E 'VIOLATION|UNDECIDED|CHECKER-CRASH' /tmp/try_$p.log | cut -c1-200 | tr '\n' ' ')"
done
