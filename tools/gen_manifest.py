"""regenerate MANIFEST.json from pv/registry.py (properties whose groups are all registered are claimed)"""
import json, os, sys
sys.path.insert(0, os.path.dirname(os.path.dirname(os.path.abspath(__file__))))
from pv.registry import PROPS
import pv.groups.all  # noqa
from pv.groups.base import GROUPS

props = [json.loads(l) for l in open(os.path.join(os.path.dirname(__file__), '..', 'properties.jsonl'))]
checks, na = [], []
pending = {}
for p in props:
    pid = p['id']
    if pid == 'C19':
        na.append(dict(property_id=pid, reason="decimal formatting / parsing of IEEE doubles and file I/O: in a model where floats are reals the round-trip claim is vacuous, and no contract over the modelled subset (no strings, no files) can express it (DESIGN 6/C19)"))
        continue
    P = PROPS.get(pid)
    missing = [g for g in (P['groups']['thorough'] if P else []) if g not in GROUPS]
    if P is None or missing:
        na.append(dict(property_id=pid, reason="machinery not finished in this round (missing obligation groups: %s)" % ', '.join(missing)))
        continue
    strengths = sorted(set(GROUPS[g].strength for g in P['groups']['quick']))
    level = 'proof' if (P['level'] == 'proof' and all(s in ('P', 'L') for s in strengths)) else 'other'
    bounded = [g for g in P['groups']['quick'] if GROUPS[g].strength == 'B']
    text = P['explanation']
    if level == 'proof':
        text = "Unbounded: " + text + ". Every obligation is an inductive VC or a lemma, discharged for all inputs."
    else:
        text = ("Contract-based; mixed strength, reported per group in evidence. " + text +
                ". Bounded groups (labelled B, never counted as proved): " + ', '.join(bounded))
    checks.append(dict(
        property_id=pid,
        quick_cmd="./check %s --tier quick" % pid,
        thorough_cmd="./check %s --tier thorough" % pid,
        evidence_file="evidence/%s.json" % pid,
        replay_cmd_template="./check --replay {path}",
        engine="pv",
        level_claimed=dict(category=level, text=text, design_ref="DESIGN.md section 6/%s" % pid),
        level_note="floats modelled as mathematical reals with finiteness flags; numpy operations as assumed contracts; .pyx verified as mechanically extracted text (Cython absent: C semantics assumed); VC generator and z3/cvc5 trusted; termination not verified",
        technique=P['technique']))
m = dict(
    version=1,
    setup_cmd="python3-vt -c \"import z3, cvc5; print('solvers ok', z3.get_version_string())\" && /venv/bin/python -c \"import numpy, pyspike\"",
    hooks=dict(guard="PYSPIKE_VERIF",
               enable="no source hooks: contracts are sidecar files under /verif/pv/contracts keyed by (file, function, loop ordinal); nothing in /repo is instrumented (the nine 'fix:' commits in /repo are unguarded defect repairs, see known_findings.json)",
               baseline_off_cmd="cd /repo && /venv/bin/python -m pytest -ra -q -p no:cacheprovider --timeout=900 --continue-on-collection-errors",
               source_commits=[], add_only=True),
    engines=[dict(name="pv", path="pv/", serves_properties=[c['property_id'] for c in checks],
                  kind_free_text="self-built verification-condition generator over the Python AST of /repo's real functions (inductive mode with sidecar loop invariants; bounded mode with symbolic reals), z3/cvc5 back ends, counterexample replay on the real code; plumbing wrappers executed natively on formal terms")],
    checks=checks,
    notes="exit codes of every check: 0 held / 1 violation (VIOLATION line + replay file) / 2 undecided / 3 checker crash. Known findings: known_findings.json",
    not_applicable=na)
json.dump(m, open(os.path.join(os.path.dirname(__file__), '..', 'MANIFEST.json'), 'w'), indent=1)
print('claimed', [c['property_id'] for c in checks]); print('not claimed', [(n['property_id'], n['reason'][:90]) for n in na])
