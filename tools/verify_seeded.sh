#!/bin/bash
# tools/verify_seeded.sh <out_dir with patch.diff demo.py meta.json> : confirm the claims of a seeded change in a fresh scratch worktree
out=$1
wt=$(mktemp -d /tmp/vseed.XXXX)
rmdir $wt
git -C /repo worktree add -q --detach $wt HEAD || exit 9
trap "git -C /repo worktree remove --force $wt; rm -f $wt.demo_with.log $wt.demo_without.log" EXIT
cd $wt
git apply $out/patch.diff || { echo "PATCH-DOES-NOT-APPLY"; exit 8; }
echo "files: $(git diff --stat | tail -1)"
echo "suite(with change): $(/venv/bin/python -m pytest -q -p no:cacheprovider --timeout=900 --continue-on-collection-errors 2>&1 | tail -1)"
PYTHONPATH=$wt /venv/bin/python $out/demo.py > $wt.demo_with.log 2>&1; echo "demo(with change) exit=$? :: $(tail -2 $wt.demo_with.log | tr '\n' ' ' | cut -c1-200)"
git apply -R $out/patch.diff
PYTHONPATH=$wt /venv/bin/python $out/demo.py > $wt.demo_without.log 2>&1; echo "demo(without) exit=$? :: $(tail -1 $wt.demo_without.log | cut -c1-120)"
