#!/bin/bash
# run every claimed check of MANIFEST.json (tier $1, default quick); print exit code and wall time per property
cd "$(dirname "$0")/.."
tier=${1:-quick}
for p in $(python3 -c "import json; print(' '.join(c['property_id'] for c in json.load(open('MANIFEST.json'))['checks']))"); do
  s=$(date +%s)
  ./check $p --tier $tier > /tmp/check_$p.log 2>&1
  rc=$?
  e=$(date +%s)
  echo "$p exit=$rc wall=$((e-s))s $(grep -c KNOWN-FINDING /tmp/check_$p.log) known; $(tail -1 /tmp/check_$p.log | cut -c1-120)"
done
