#!/bin/bash
# tools/try_patch_copy.sh <patch.diff> <tier> <prop> ... : like try_patch.sh but on a scratch copy of /repo (PYSPIKE_REPO), /repo itself untouched
patch=$1; tier=$2; shift 2
cd "$(dirname "$0")/.."
d=$(mktemp -d /tmp/pcopy.XXXX)
trap "rm -rf $d" EXIT
git -C /repo archive HEAD | tar -x -C $d
(cd $d && git init -q . && git apply --whitespace=nowarn "$patch") || { echo "patch does not apply"; exit 8; }
for p in "$@"; do
  s=$(date +%s)
  cp evidence/$p.json $d/.evidence_$p.json 2>/dev/null   # the trial must not leave its evidence in /verif
  PYSPIKE_REPO=$d ./check $p --tier $tier --no-cache > /tmp/tryc_$p.log 2>&1
  rc=$?
  cp $d/.evidence_$p.json evidence/$p.json 2>/dev/null
  e=$(date +%s)
  echo "$p exit=$rc wall=$((e-s))s :: $(grep -m2 -E 'VIOLATION|UNDECIDED|CHECKER-CRASH|not applicable' /tmp/tryc_$p.log | cut -c1-220 | tr '\n' ' ')"
done
